// verif hook module for src/encoder.rs (compiled only with --cfg cberner_raptorq_verif)
