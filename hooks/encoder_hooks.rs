// verif hook module for src/encoder.rs (compiled only with --cfg cberner_raptorq_verif)
#![allow(dead_code, unused_imports)]
use super::*;

#[cfg(kani)]
pub(crate) mod kani_enc {
    use super::super::*;

    /// executable RFC 6330 4.4.1.2 layout oracle: byte `b` of symbol `m` of a block of `k` symbols of size `t`
    /// (alignment al, n sub-blocks) is the block byte at this offset
    fn layout_offset(t: usize, al: usize, n: usize, k: usize, m: usize, b: usize) -> usize {
        let units = t / al;
        let ts = units / n;
        let tl = if units % n == 0 { ts } else { ts + 1 };
        let nl = units - ts * n;
        // find the sub-block that byte b of a symbol belongs to
        let mut sb = 0;
        let mut sym_off = 0; // offset of sub-symbol sb inside a symbol
        let mut blk_off = 0; // offset of sub-block sb inside the block
        loop {
            let bytes = if sb < nl { tl * al } else { ts * al };
            if b < sym_off + bytes {
                return blk_off + m * bytes + (b - sym_off);
            }
            sym_off += bytes;
            blk_off += bytes * k;
            sb += 1;
        }
    }

    fn check_create_symbols(t: u16, al: u8, n: u16, k: usize) {
        let cfg = ObjectTransmissionInformation::new((k * t as usize) as u64, t, 1, n, al);
        let data: [u8; 16] = kani::any();
        let len = k * t as usize;
        let symbols = SourceBlockEncoder::create_symbols(&cfg, &data[..len]);
        assert!(symbols.len() == k, "C05 a block of K*T bytes yields K symbols");
        let m: usize = kani::any();
        let b: usize = kani::any();
        kani::assume(m < k && b < t as usize);
        assert!(symbols[m].as_bytes().len() == t as usize, "C05 every symbol is exactly T bytes");
        assert!(
            symbols[m].as_bytes()[b] == data[layout_offset(t as usize, al as usize, n as usize, k, m, b)],
            "C05 symbol m is the concatenation of the m-th sub-symbols of all sub-blocks (RFC 6330 4.4.1.2)"
        );
    }

    // K-LAYOUT (BOUNDED): encoder-side sub-block interleaving on a few small configurations with symbolic data
    #[kani::proof]
    #[kani::unwind(18)]
    pub(crate) fn create_symbols_layout_even() {
        check_create_symbols(6, 2, 3, 2); // T/Al = 3 units, N = 3: TL = TS = 1
    }
    #[kani::proof]
    #[kani::unwind(18)]
    pub(crate) fn create_symbols_layout_uneven() {
        check_create_symbols(5, 1, 3, 2); // 5 units, N = 3: TL = 2, TS = 1, NL = 2, NS = 1
    }
    #[kani::proof]
    #[kani::unwind(18)]
    pub(crate) fn create_symbols_layout_uneven_aligned() {
        check_create_symbols(8, 2, 3, 2); // 4 units, N = 3: TL = 2, TS = 1, NL = 1, NS = 2
    }
    #[kani::proof]
    #[kani::unwind(18)]
    pub(crate) fn create_symbols_layout_single_sub_block() {
        check_create_symbols(4, 1, 1, 3);
    }

    fn tiny_encoder(id: u8, k: usize, t: usize) -> SourceBlockEncoder {
        let mut syms = vec![];
        let mut i = 0;
        while i < k {
            let bytes: [u8; 2] = kani::any();
            syms.push(Symbol::new(bytes[..t].to_vec()));
            i += 1;
        }
        SourceBlockEncoder { source_block_id: id, source_symbols: syms, intermediate_symbols: SymbolSlab::with_zeros(0, t) }
    }

    // K-PKTS (BOUNDED): source packets of a block: K packets, ESI 0..K-1 in order, the block's number, payload == source symbol i
    #[kani::proof]
    #[kani::unwind(8)]
    pub(crate) fn source_packets_order_and_ids() {
        let id: u8 = kani::any();
        let k: usize = kani::any();
        kani::assume(k <= 3);
        let enc = tiny_encoder(id, k, 2);
        let pk = enc.source_packets();
        assert!(pk.len() == k, "C18 K source packets");
        let i: usize = kani::any();
        kani::assume(i < k);
        assert!(pk[i].payload_id().source_block_number() == id, "C18 source packet carries the block's number");
        assert!(pk[i].payload_id().encoding_symbol_id() == i as u32, "C18 source packet i has ESI i");
        assert!(pk[i].data() == enc.source_symbols[i].as_bytes(), "C04 source packet i carries source symbol i");
    }
}
