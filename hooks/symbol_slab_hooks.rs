// verif hook module for src/symbol_slab.rs (compiled only with --cfg cberner_raptorq_verif)
#![allow(dead_code, unused_imports)]
use super::*;

#[cfg(kani)]
pub(crate) mod kani_slab {
    use super::super::*;
    use crate::octet::OCTET_MUL;
    use crate::octets::verif_hooks::kani_kern::*;
    use std::arch::x86_64::*;

    const COUNT: usize = 3;

    // K-SLABMEM (bounded: 3 symbols, one concrete symbol size per call): the real SymbolSlab operations, through the real
    // paired borrow (raw pointers) and the real kernels under an arbitrary CPUID, against the element-wise contract that
    // V-SLAB assumes for them; every other byte of the slab unchanged; with and without a reorder mapping.
    fn check_ops(ss: usize, with_mapping: bool, which: u8) {
        let bytes: [u8; 48] = kani::any();
        let n = COUNT * ss;
        let mapping = if with_mapping { Some(vec![2usize, 0, 1]) } else { None };
        let mut slab = SymbolSlab { data: bytes[..n].to_vec(), count: COUNT, symbol_size: ss, mapping };
        let dest: usize = kani::any();
        let src: usize = kani::any();
        kani::assume(dest < COUNT && src < COUNT && dest != src);
        let c: u8 = 0x53;
        let before: [u8; 48] = bytes;
        let phys = |i: usize| if with_mapping { [2usize, 0, 1][i] } else { i };
        match which {
            0 => slab.add_assign(dest, src),
            1 => slab.mulassign_scalar(dest, &Octet::new(c)),
            _ => slab.fma(dest, src, &Octet::new(c)),
        }
        let k: usize = kani::any();
        kani::assume(k < n);
        let sym = k / ss;
        let off = k % ss;
        let got = slab.data[k];
        if sym == phys(dest) {
            let d0 = before[k];
            let s0 = before[phys(src) * ss + off];
            let want = match which {
                0 => d0 ^ s0,
                1 => OCTET_MUL[c as usize][d0 as usize],
                _ => d0 ^ OCTET_MUL[c as usize][s0 as usize],
            };
            assert!(got == want, "C09/C12 slab op == element-wise field operation on the destination symbol");
        } else {
            assert!(got == before[k], "C09/C12 slab op leaves every other symbol unchanged");
        }
        assert!(slab.data.len() == n, "C12 slab storage size unchanged");
    }

    // CPU identification fixed to "no vector extension": the portable kernels are selected (every kernel and every dispatcher is
    // checked on its own in K-KERN); this unit is about the slab's own address arithmetic and borrows
    pub(crate) fn m_cpuid_none(_leaf: u32, _sub: u32) -> CpuidResult {
        CpuidResult { eax: 0, ebx: 0, ecx: 0, edx: 0 }
    }
    macro_rules! slab_h {
        ($name:ident, $which:expr, $m:expr, $step:expr) => {
            #[kani::proof]
            #[kani::unwind(20)]
            #[kani::stub(std::arch::x86_64::__cpuid_count, m_cpuid_none)]
            #[kani::stub(std::arch::x86_64::_xgetbv, m_xgetbv)]
            pub(crate) fn $name() {
                let mut ss = 1;
                while ss <= 16 {
                    check_ops(ss, $m, $which);
                    ss += $step;
                }
            }
        };
    }
    slab_h!(slab_add_assign, 0, false, 1);
    slab_h!(slab_mulassign, 1, false, 7);
    slab_h!(slab_fma, 2, false, 7);
    slab_h!(slab_add_assign_mapped, 0, true, 1);
    slab_h!(slab_mulassign_mapped, 1, true, 7);
    slab_h!(slab_fma_mapped, 2, true, 7);

    // get_pair_mut refuses dest == src and out-of-range indices
    #[kani::proof]
    #[kani::unwind(20)]
    pub(crate) fn slab_pair_refuses_bad_indices() {
        let mut slab = SymbolSlab::with_zeros(3, 4);
        let dest: usize = kani::any();
        let src: usize = kani::any();
        kani::assume(dest == src || dest >= 3 || src >= 3);
        kani::assume(dest < 8 && src < 8);
        let _ = slab.get_pair_mut(dest, src);
        assert!(false, "MARKER C12 get_pair_mut accepted equal or out-of-range indices");
    }
}
