// verif hook module for src/symbol_slab.rs (compiled only with --cfg cberner_raptorq_verif)
