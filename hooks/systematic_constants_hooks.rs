// verif hook module for src/systematic_constants.rs (compiled only with --cfg cberner_raptorq_verif)
#![allow(dead_code, unused_imports)]
use super::*;

pub fn p1_row(idx: usize) -> (u32, u32) {
    P1_TABLE[idx]
}

#[cfg(kani)]
pub(crate) mod kani_tab {
    use super::super::*;
    use crate::verif::rfc::is_prime;
    use crate::verif::rfc_tables::*;

    // C15: Table 2 and the P1 table equal the pinned RFC transcription (symbolic row: every row)
    #[kani::proof]
    pub(crate) fn tables_match_pin() {
        let idx: usize = kani::any();
        kani::assume(idx < 477);
        assert!(SYSTEMATIC_INDICES_AND_PARAMETERS[idx] == PIN_TABLE2[idx], "C15 Table 2 row == RFC 5.6");
        assert!(P1_TABLE[idx] == PIN_P1[idx], "C15 P1 row == pinned");
        assert!(MAX_SOURCE_SYMBOLS_PER_BLOCK == 56403, "C15 K'_max == 56403");
        kani::cover!(idx == 476, "reach");
    }

    // C15: structural facts of every row, derived by computation (independent of the pin).
    // Concrete loops over the constant table: CBMC evaluates them completely.
    fn row_facts(lo: usize, hi: usize) {
        let mut idx = lo;
        while idx < hi {
            let (kp, j, s, h, w) = SYSTEMATIC_INDICES_AND_PARAMETERS[idx];
            let (kp1, p1) = P1_TABLE[idx];
            assert!(kp1 == kp, "C15 P1 table keyed by the same K'");
            assert!(j <= 1000, "C15 J(K') <= 1000 (precondition under which the tuple generator is proved)");
            assert!((w - s) / s + 1 < s, "C15 a = 1 + floor(i/S) < S for every i < B: the three LDPC positions of a column are distinct");
            if idx > 0 {
                assert!(SYSTEMATIC_INDICES_AND_PARAMETERS[idx - 1].0 < kp, "C15 K' strictly increasing");
            }
            assert!(is_prime(s), "C15 S prime");
            assert!(is_prime(w), "C15 W prime");
            assert!(w > s && w - s >= 1, "C15 B = W - S >= 1");
            let l = kp + s + h;
            assert!(l < 65536, "C15 L < 65536");
            assert!(l > w, "C15 P = L - W > 0");
            let p = l - w;
            assert!(h >= 2 && p >= h, "C15 P >= H >= 2");
            assert!(is_prime(p1) && p1 >= p, "C15 P1 prime >= P");
            let mut n = p;
            while n < p1 {
                assert!(!is_prime(n), "C15 P1 is the smallest prime >= P");
                n += 1;
            }
            assert!(p1 - p <= 13, "C15 P1 - P <= 13 (bound used for Enc's while loops)");
            assert!(w >= 17 && p1 >= 11, "C15 W >= 17, P1 >= 11");
            idx += 1;
        }
    }
    #[kani::proof]
    #[kani::unwind(62)]
    pub(crate) fn row_facts_0() {
        row_facts(0, 60);
    }
    #[kani::proof]
    #[kani::unwind(62)]
    pub(crate) fn row_facts_1() {
        row_facts(60, 120);
    }
    #[kani::proof]
    #[kani::unwind(62)]
    pub(crate) fn row_facts_2() {
        row_facts(120, 180);
    }
    #[kani::proof]
    #[kani::unwind(62)]
    pub(crate) fn row_facts_3() {
        row_facts(180, 240);
    }
    #[kani::proof]
    #[kani::unwind(62)]
    pub(crate) fn row_facts_4() {
        row_facts(240, 300);
    }
    #[kani::proof]
    #[kani::unwind(62)]
    pub(crate) fn row_facts_5() {
        row_facts(300, 360);
    }
    #[kani::proof]
    #[kani::unwind(62)]
    pub(crate) fn row_facts_6() {
        row_facts(360, 420);
    }
    #[kani::proof]
    #[kani::unwind(62)]
    pub(crate) fn row_facts_7() {
        row_facts(420, 477);
        assert!(SYSTEMATIC_INDICES_AND_PARAMETERS[476].0 == MAX_SOURCE_SYMBOLS_PER_BLOCK, "C15 last K' == K'_max");
    }
    // (the look-up functions themselves are verified for every K in the Verus unit V-TAB: unbounded loops, cheap there)
}
