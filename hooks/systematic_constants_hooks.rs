// verif hook module for src/systematic_constants.rs (compiled only with --cfg cberner_raptorq_verif)
