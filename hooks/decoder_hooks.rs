// verif hook module for src/decoder.rs (compiled only with --cfg cberner_raptorq_verif)
