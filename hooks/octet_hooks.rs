// verif hook module for src/octet.rs (compiled only with --cfg cberner_raptorq_verif)
