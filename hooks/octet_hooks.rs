// verif hook module for src/octet.rs (compiled only with --cfg cberner_raptorq_verif)
#![allow(dead_code, unused_imports)]
use super::*;

pub fn oct_exp(i: usize) -> u8 {
    OCT_EXP[i]
}
pub fn oct_log(i: usize) -> u8 {
    OCT_LOG[i]
}

#[cfg(kani)]
mod kani_gf {
    use super::super::*;
    use crate::verif::gf::{gf_mul, gf_pow2};

    // C10: product of the real operators equals the polynomial definition, all 65536 pairs.
    #[kani::proof]
    #[kani::unwind(9)]
    fn gf_mul_matches_polynomial() {
        let a: u8 = kani::any();
        let b: u8 = kani::any();
        let spec = gf_mul(a, b);
        let r = &Octet::new(a) * &Octet::new(b);
        assert!(r.byte() == spec, "C10 mul(&,&) == gf_mul");
        let r2 = Octet::new(a) * Octet::new(b);
        assert!(r2.byte() == spec, "C10 mul(val,val) == gf_mul");
        assert!(OCTET_MUL[a as usize][b as usize] == spec, "C10 OCTET_MUL == gf_mul");
        kani::cover!(a == 0x53 && b == 0xCA, "reach");
    }

    // C10: nibble tables used by the vector kernels.
    #[kani::proof]
    #[kani::unwind(9)]
    fn gf_nibble_tables() {
        let a: u8 = kani::any();
        let b: u8 = kani::any();
        let lo = (b & 0x0F) as usize;
        let hi = (b >> 4) as usize;
        let spec = gf_mul(a, b);
        assert!(
            OCTET_MUL_LOW_BITS[a as usize][lo] ^ OCTET_MUL_HI_BITS[a as usize][hi] == spec,
            "C10 LOW[a][b&15] ^ HI[a][b>>4] == gf_mul"
        );
        assert!(
            OCTET_MUL_LOW_BITS[a as usize][lo] == gf_mul(a, b & 0x0F),
            "C10 LOW[a][n] == gf_mul(a,n)"
        );
        assert!(
            OCTET_MUL_HI_BITS[a as usize][hi] == gf_mul(a, b & 0xF0),
            "C10 HI[a][n] == gf_mul(a,n<<4)"
        );
        assert!(
            OCTET_MUL_LOW_BITS[a as usize][lo + 16] == OCTET_MUL_LOW_BITS[a as usize][lo],
            "C10 LOW upper half duplicates lower half"
        );
        assert!(
            OCTET_MUL_HI_BITS[a as usize][hi + 16] == OCTET_MUL_HI_BITS[a as usize][hi],
            "C10 HI upper half duplicates lower half"
        );
        kani::cover!(a == 0xFF && b == 0xFF, "reach");
    }

    // C10: add == sub == xor, fma == add after mul, AddAssign.
    #[kani::proof]
    #[kani::unwind(9)]
    fn gf_add_sub_fma() {
        let a: u8 = kani::any();
        let b: u8 = kani::any();
        let x: u8 = kani::any();
        assert!((Octet::new(a) + Octet::new(b)).byte() == a ^ b, "C10 add is xor");
        assert!((&Octet::new(a) + &Octet::new(b)).byte() == a ^ b, "C10 add(&,&) is xor");
        assert!((Octet::new(a) - Octet::new(b)).byte() == a ^ b, "C10 sub is xor");
        let mut t = Octet::new(a);
        t += Octet::new(b);
        assert!(t.byte() == a ^ b, "C10 add_assign is xor");
        let mut t2 = Octet::new(a);
        t2 += &Octet::new(b);
        assert!(t2.byte() == a ^ b, "C10 add_assign(&) is xor");
        let mut acc = Octet::new(x);
        acc.fma(&Octet::new(a), &Octet::new(b));
        assert!(acc.byte() == x ^ gf_mul(a, b), "C10 fma == x + a*b");
        assert!(Octet::zero().byte() == 0 && Octet::one().byte() == 1, "C10 zero/one");
        kani::cover!(a == 1 && b == 2 && x == 3, "reach");
    }

    // C10: division: (a / b) * b == a for all a, all b != 0.
    #[kani::proof]
    #[kani::unwind(9)]
    fn gf_div_inverse() {
        let a: u8 = kani::any();
        let b: u8 = kani::any();
        kani::assume(b != 0);
        let q = &Octet::new(a) / &Octet::new(b);
        assert!(gf_mul(q.byte(), b) == a, "C10 (a/b)*b == a");
        let q2 = Octet::new(a) / Octet::new(b);
        assert!(q2.byte() == q.byte(), "C10 div(val,val) == div(&,&)");
        if a == 1 {
            assert!(gf_mul(q.byte(), b) == 1, "C10 b * (1/b) == 1");
        }
        kani::cover!(a == 1 && b == 0xFF, "reach");
    }

    // C10: division by zero is refused (marker must be unreachable).
    #[kani::proof]
    fn gf_div_zero_refused() {
        let a: u8 = kani::any();
        let _q = &Octet::new(a) / &Octet::new(0);
        assert!(false, "MARKER C10 division by zero accepted");
    }

    // C10: alpha(i) == 2^i for all i < 256, OCT_EXP periodic, OCT_LOG inverse of OCT_EXP.
    #[kani::proof]
    #[kani::unwind(258)]
    fn gf_alpha_pow() {
        // iterative: x_{i+1} = 2 * x_i ; check every i with a concrete loop (256 steps, each gf_mul unwound)
        let mut x: u8 = 1;
        let mut i = 0usize;
        while i < 256 {
            assert!(Octet::alpha(i).byte() == x, "C10 alpha(i) == 2^i");
            x = gf_mul(x, 2);
            i += 1;
        }
    }

    #[kani::proof]
    #[kani::unwind(9)]
    fn gf_exp_log_tables() {
        let i: usize = kani::any();
        kani::assume(i < 255);
        assert!(OCT_EXP[i + 255] == OCT_EXP[i], "C10 OCT_EXP[i+255] == OCT_EXP[i]");
        assert!(OCT_LOG[OCT_EXP[i] as usize] as usize == i, "C10 OCT_LOG[OCT_EXP[i]] == i");
        assert!(OCT_EXP[i] != 0, "C10 OCT_EXP[i] != 0");
        if i < 254 {
            assert!(OCT_EXP[i + 1] == gf_mul(OCT_EXP[i], 2), "C10 OCT_EXP[i+1] == 2*OCT_EXP[i]");
        } else {
            assert!(gf_mul(OCT_EXP[i], 2) == 1, "C10 alpha^255 == 1");
        }
        assert!(OCT_EXP[0] == 1, "C10 alpha^0 == 1");
        kani::cover!(i == 254, "reach");
    }

    #[kani::proof]
    fn gf_alpha_refuses_256() {
        let i: usize = kani::any();
        kani::assume(i >= 256);
        let _ = Octet::alpha(i);
        assert!(false, "MARKER C10 alpha(i>=256) accepted");
    }

    // C10 (redundant with equality to gf_mul): field laws on the real operators, 2^24 triples.
    #[kani::proof]
    fn gf_field_laws() {
        let a: u8 = kani::any();
        let b: u8 = kani::any();
        let c: u8 = kani::any();
        let (oa, ob, oc) = (Octet::new(a), Octet::new(b), Octet::new(c));
        assert!((&oa * &ob) == (&ob * &oa), "C10 commutative");
        assert!((&(&oa * &ob) * &oc) == (&oa * &(&ob * &oc)), "C10 associative");
        assert!((&oa * &(&ob + &oc)) == (&(&oa * &ob) + &(&oa * &oc)), "C10 distributive");
        assert!((&oa * &Octet::one()) == oa, "C10 one is identity");
        kani::cover!(a == 7 && b == 9 && c == 200, "reach");
    }
}
