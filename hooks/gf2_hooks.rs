// K-GF2 (C16): gf2::add_assign_binary is the word-wise xor of src into dest, leaves src and the bytes around dest untouched.
// BOUNDED: lengths 0..=6 words (the loop is a zip over `len` words; every iteration is the same xor), symbolic contents.
#[cfg(kani)]
pub(crate) mod kani_gf2 {
    use crate::gf2::add_assign_binary;

    macro_rules! check_len {
        ($n:expr) => {{
            let mut buf: [u64; 8] = kani::any();
            let src: [u64; 8] = kani::any();
            let before = buf;
            add_assign_binary(&mut buf[1..1 + $n], &src[0..$n]);
            let mut k = 0;
            while k < 8 {
                if k >= 1 && k < 1 + $n {
                    assert!(buf[k] == before[k] ^ src[k - 1], "C16 add_assign_binary: dest word == dest ^ src");
                } else {
                    assert!(buf[k] == before[k], "C16 add_assign_binary: words outside dest untouched");
                }
                k += 1;
            }
        }};
    }

    #[kani::proof]
    #[kani::unwind(10)]
    pub(crate) fn add_assign_binary_is_wordwise_xor() {
        check_len!(0);
        check_len!(1);
        check_len!(2);
        check_len!(5);
        check_len!(6);
        let probe: u64 = kani::any();
        kani::cover!(probe == 0x8000_0000_0000_0001, "reach");
    }

    // src longer than dest is allowed (only the first dest.len() words are read); src shorter is refused by the slice index
    #[kani::proof]
    #[kani::unwind(10)]
    pub(crate) fn add_assign_binary_reads_only_len_words() {
        let mut buf: [u64; 4] = kani::any();
        let src: [u64; 6] = kani::any();
        let before = buf;
        add_assign_binary(&mut buf[0..3], &src[0..6]);
        assert!(buf[0] == before[0] ^ src[0] && buf[1] == before[1] ^ src[1] && buf[2] == before[2] ^ src[2] && buf[3] == before[3], "C16 add_assign_binary with a longer src");
        kani::cover!(src[5] != 0 && buf[2] != before[2], "reach");
    }

    #[kani::proof]
    #[kani::unwind(10)]
    pub(crate) fn add_assign_binary_refuses_short_src() {
        let mut buf: [u64; 4] = kani::any();
        let src: [u64; 4] = kani::any();
        add_assign_binary(&mut buf[0..4], &src[0..3]);
        assert!(false, "MARKER C16 add_assign_binary accepted a src shorter than dest");
    }

    // util::get_both_ranges (the other assumed contract of V-DENSE's add_assign_rows): the two results are the windows [i, i+len) and
    // [j, j+len) of the vector, in that order, and writes through them land exactly there. BOUNDED: a vector of 8 words; i, j, len symbolic.
    #[kani::proof]
    #[kani::unwind(10)]
    pub(crate) fn get_both_ranges_are_the_two_disjoint_windows() {
        let mut v: [u64; 8] = kani::any();
        let before = v;
        let i: usize = kani::any();
        let j: usize = kani::any();
        let len: usize = kani::any();
        // the precondition of the contract V-DENSE assumes (i != j is implied for len >= 1; the function debug-asserts it)
        kani::assume(i <= 8 && j <= 8 && len <= 8 && i + len <= 8 && j + len <= 8 && (i + len <= j || j + len <= i) && i != j);
        let a: u64 = kani::any();
        let b: u64 = kani::any();
        {
            let (r0, r1) = crate::util::get_both_ranges(&mut v[..], i, j, len);
            assert!(r0.len() == len && r1.len() == len, "C16 get_both_ranges: both windows have len elements");
            let mut k = 0;
            while k < len {
                assert!(r0[k] == before[i + k] && r1[k] == before[j + k], "C16 get_both_ranges: first window starts at i, second at j");
                r0[k] = a.wrapping_add(k as u64);
                r1[k] = b.wrapping_add(k as u64);
                k += 1;
            }
        }
        let mut k = 0;
        while k < 8 {
            if k >= i && k < i + len {
                assert!(v[k] == a.wrapping_add((k - i) as u64), "C16 get_both_ranges: writes through the first window land at i..i+len");
            } else if k >= j && k < j + len {
                assert!(v[k] == b.wrapping_add((k - j) as u64), "C16 get_both_ranges: writes through the second window land at j..j+len");
            } else {
                assert!(v[k] == before[k], "C16 get_both_ranges: nothing outside the two windows changes");
            }
            k += 1;
        }
        kani::cover!(len == 3 && i == 5 && j == 1, "reach");
    }

    // util::get_both_indices (rule S6 of V-SPMAT models `get_both_indices(&mut v, i, j)` as "element i, element j, in that order"):
    // BOUNDED: a vector of 8 words; i, j symbolic and distinct.
    #[kani::proof]
    #[kani::unwind(10)]
    pub(crate) fn get_both_indices_are_elements_i_and_j() {
        let mut v: [u64; 8] = kani::any();
        let before = v;
        let i: usize = kani::any();
        let j: usize = kani::any();
        kani::assume(i < 8 && j < 8 && i != j);
        let a: u64 = kani::any();
        let b: u64 = kani::any();
        {
            let (r0, r1) = crate::util::get_both_indices(&mut v[..], i, j);
            assert!(*r0 == before[i] && *r1 == before[j], "C16 get_both_indices: first result is element i, second is element j");
            *r0 = a;
            *r1 = b;
        }
        let mut k = 0;
        while k < 8 {
            if k == i {
                assert!(v[k] == a, "C16 get_both_indices: a write through the first result lands at i");
            } else if k == j {
                assert!(v[k] == b, "C16 get_both_indices: a write through the second result lands at j");
            } else {
                assert!(v[k] == before[k], "C16 get_both_indices: no other element changes");
            }
            k += 1;
        }
        kani::cover!(i == 6 && j == 2, "reach");
    }
}
