// verif hook module for src/octets.rs (compiled only with --cfg cberner_raptorq_verif)
