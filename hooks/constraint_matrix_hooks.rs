// verif hook module for src/constraint_matrix.rs (compiled only with --cfg cberner_raptorq_verif)
#![allow(dead_code, unused_imports)]
use super::*;

#[cfg(kani)]
pub(crate) mod kani_encidx {
    use super::super::*;
    use crate::systematic_constants::verif_hooks::p1_row;
    use crate::systematic_constants::SYSTEMATIC_INDICES_AND_PARAMETERS;
    use crate::verif::rfc::enc_indices_spec;

    // C15/C04: enc_indices for a symbolic table row and ANY tuple within the ranges Tuple[] guarantees:
    // calls the closure exactly d + d1 times with the RFC Enc index sequence, every index < L;
    // the `while b1 >= P` loops stop within P1 - P + 1 <= 14 steps (unwinding assertion = termination obligation).
    #[kani::proof]
    #[kani::unwind(31)]
    pub(crate) fn enc_indices_matches_rfc() {
        let idx: usize = kani::any();
        kani::assume(idx < 477);
        let (kp, _j, s, h, w) = SYSTEMATIC_INDICES_AND_PARAMETERS[idx];
        let p1 = p1_row(idx).1;
        let l = kp + s + h;
        let p = l - w;
        let d: u32 = kani::any();
        let a: u32 = kani::any();
        let b: u32 = kani::any();
        let d1: u32 = kani::any();
        let a1: u32 = kani::any();
        let b1: u32 = kani::any();
        kani::assume(1 <= d && d <= 30 && d <= w - 2);
        kani::assume(1 <= a && a < w && b < w);
        kani::assume(d1 == 2 || d1 == 3);
        kani::assume(1 <= a1 && a1 < p1 && b1 < p1);
        let t = (d, a, b, d1, a1, b1);
        let mut got = [0u64; 33];
        let mut n = 0usize;
        enc_indices(t, w, p, p1, |i| {
            if n < 33 {
                got[n] = i as u64;
            }
            n += 1;
        });
        let (want, wn) = enc_indices_spec(t, w, p, p1);
        assert!(n == wn && n == (d + d1) as usize, "C15 enc_indices yields d + d1 indices");
        let k: usize = kani::any();
        kani::assume(k < n);
        assert!(got[k] == want[k], "C15 enc_indices == RFC Enc index sequence");
        assert!(got[k] < l as u64, "C15 every Enc index < L");
        kani::cover!(d == 30 && d1 == 3, "reach");
    }
}
