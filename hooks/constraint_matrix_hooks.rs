// verif hook module for src/constraint_matrix.rs (compiled only with --cfg cberner_raptorq_verif)
#![allow(dead_code, unused_imports)]
use super::*;

#[cfg(kani)]
pub(crate) mod kani_encidx {
    use super::super::*;
    use crate::systematic_constants::verif_hooks::p1_row;
    use crate::systematic_constants::SYSTEMATIC_INDICES_AND_PARAMETERS;

    /// (x + a) mod m for x, a < m, written without a division (independent of the code's `%`)
    fn step(x: u32, a: u32, m: u32) -> u32 {
        let s = x as u64 + a as u64;
        if s >= m as u64 {
            (s - m as u64) as u32
        } else {
            s as u32
        }
    }

    // C15/C04: enc_indices for a symbolic table row and ANY tuple within the ranges Tuple[] guarantees. The RFC 6330 5.3.5.3
    // index sequence is generated on the fly inside the observer closure (no arrays, division-free) and compared call by call:
    //   call 0: b;  calls 1..d-1: b = (b + a) mod W;  then d1 PI indices W + b1 with b1 advanced by a1 mod P1 and values >= P skipped.
    // Exactly d + d1 calls, every index < L, no panic, no overflow; the `while b1 >= P` loops stop within P1 - P + 1 <= 14
    // steps (the harness is unwound 31 times with unwinding assertions on: termination is an obligation).
    fn check_row(idx: usize, d1: u32, dmax: u32) {
        let (kp, _j, s, h, w) = SYSTEMATIC_INDICES_AND_PARAMETERS[idx];
        let p1 = p1_row(idx).1;
        let l = kp + s + h;
        let p = l - w;
        let d: u32 = kani::any();
        let a: u32 = kani::any();
        let b: u32 = kani::any();
        let a1: u32 = kani::any();
        let b1: u32 = kani::any();
        kani::assume(1 <= d && d <= 30 && d <= w - 2 && d <= dmax);
        kani::assume(1 <= a && a < w && b < w);
        kani::assume(d1 == 2 || d1 == 3);
        kani::assume(1 <= a1 && a1 < p1 && b1 < p1);
        let mut calls: u32 = 0;
        let mut sb = b;
        let mut sb1 = b1;
        let mut seq_ok = true;
        let mut bound_ok = true;
        let mut spec_terminates = true;
        enc_indices((d, a, b, d1, a1, b1), w, p, p1, |i| {
            let expected: u64;
            if calls == 0 {
                expected = sb as u64;
            } else if calls < d {
                sb = step(sb, a, w);
                expected = sb as u64;
            } else {
                if calls > d {
                    sb1 = step(sb1, a1, p1);
                }
                let mut k = 0;
                while sb1 >= p && k < 14 {
                    sb1 = step(sb1, a1, p1);
                    k += 1;
                }
                if sb1 >= p {
                    spec_terminates = false;
                }
                expected = w as u64 + sb1 as u64;
            }
            if i as u64 != expected {
                seq_ok = false;
            }
            if i as u64 >= l as u64 {
                bound_ok = false;
            }
            calls += 1;
        });
        assert!(spec_terminates, "C15 the RFC's `while b1 >= P` terminates within P1 - P + 1 <= 14 steps");
        assert!(seq_ok, "C15 enc_indices == RFC Enc index sequence");
        assert!(bound_ok, "C15 every Enc index < L");
        assert!(calls == d + d1, "C15 enc_indices yields d + d1 indices");
        kani::cover!(d == dmax, "reach");
    }

    // d1 is concrete in each harness (the RFC allows only 2 and 3): with a symbolic d1 the bounded unwinding would multiply the
    // two-iteration `for _ in 1..d1` loop by the global bound. The table row stays symbolic (all 477 rows at once).
    #[kani::proof]
    #[kani::unwind(31)]
    pub(crate) fn enc_indices_matches_rfc_d1_2() {
        let idx: usize = kani::any();
        kani::assume(idx < 477);
        check_row(idx, 2, 30);
    }
    #[kani::proof]
    #[kani::unwind(31)]
    pub(crate) fn enc_indices_matches_rfc_d1_3() {
        let idx: usize = kani::any();
        kani::assume(idx < 477);
        check_row(idx, 3, 30);
    }

    // quick-tier stand-in (BOUNDED: d <= 8, so the harness can be unwound 15 instead of 31 times): same contract
    #[kani::proof]
    #[kani::unwind(15)]
    pub(crate) fn enc_indices_bounded_d8_d1_2() {
        let idx: usize = kani::any();
        kani::assume(idx < 477);
        check_row(idx, 2, 8);
    }
    #[kani::proof]
    #[kani::unwind(15)]
    pub(crate) fn enc_indices_bounded_d8_d1_3() {
        let idx: usize = kani::any();
        kani::assume(idx < 477);
        check_row(idx, 3, 8);
    }
}
