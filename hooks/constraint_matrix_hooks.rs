// verif hook module for src/constraint_matrix.rs (compiled only with --cfg cberner_raptorq_verif)
