// verif hook module for src/rng.rs (compiled only with --cfg cberner_raptorq_verif)
