// verif hook module for src/rng.rs (compiled only with --cfg cberner_raptorq_verif)
#![allow(dead_code, unused_imports)]
use super::*;

#[cfg(kani)]
pub(crate) mod kani_rng {
    use super::super::*;
    use crate::verif::rfc::rand_spec;
    use crate::verif::rfc_tables::*;

    // C15/C04: Rand[y,i,m] equals the RFC definition for every y, every i used by any call site (0..=7),
    // every m > 0, and never overflows (Kani's automatic arithmetic checks). Loop-free: complete.
    #[kani::proof]
    pub(crate) fn rand_matches_rfc() {
        let y: u32 = kani::any();
        let i: u32 = kani::any();
        let m: u32 = kani::any();
        kani::assume(i <= 7);
        kani::assume(m > 0);
        let r = rand(y, i, m);
        assert!(r == rand_spec(y, i, m), "C15 rand == RFC Rand[y,i,m]");
        assert!(r < m, "C15 rand < m");
        kani::cover!(y == 0xFFFF_FFFE && i == 2, "reach: y + i exceeds 2^32");
    }

    // C15: the V0..V3 tables equal the pinned RFC transcription, entry by entry
    #[kani::proof]
    pub(crate) fn v_tables_match_pin() {
        let j: usize = kani::any();
        kani::assume(j < 256);
        assert!(V0[j] == PIN_V0[j], "C15 V0 == RFC 5.5 V0");
        assert!(V1[j] == PIN_V1[j], "C15 V1 == RFC 5.5 V1");
        assert!(V2[j] == PIN_V2[j], "C15 V2 == RFC 5.5 V2");
        assert!(V3[j] == PIN_V3[j], "C15 V3 == RFC 5.5 V3");
        kani::cover!(j == 255, "reach");
    }

    #[kani::proof]
    pub(crate) fn rand_refuses_zero_modulus() {
        let y: u32 = kani::any();
        let i: u32 = kani::any();
        kani::assume(i <= 7);
        let _ = rand(y, i, 0);
        assert!(false, "MARKER C15 rand accepted m == 0");
    }
}
