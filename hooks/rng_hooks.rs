// verif hook module for src/rng.rs (compiled only with --cfg cberner_raptorq_verif)
#![allow(dead_code, unused_imports)]
use super::*;

#[cfg(kani)]
pub(crate) mod kani_rng {
    use super::super::*;
    use crate::verif::rfc::rand_spec;
    use crate::verif::rfc_tables::*;

    // C15/C04: Rand[y,i,m] = (V0[x0] ^ V1[x1] ^ V2[x2] ^ V3[x3]) % m.  Decomposed so that no two structurally different
    // symbolic-divisor modulo circuits have to be proved equivalent (intractable for SAT):
    //  (A) with m = 2^32 - 1 the reduction is the identity unless the xor value is 2^32 - 1, so this harness proves
    //      the 32-bit xor value (all four table indices, for every y and every i <= 7) equal to the RFC's;
    //  (B) the final reduction `% m` for every m > 0 is proved in the Verus unit V-RNG on the extracted function
    //      (result == xor value % m, no overflow), where integer arithmetic is cheap.
    #[kani::proof]
    pub(crate) fn rand_xor_value_matches_rfc() {
        let y: u32 = kani::any();
        let i: u32 = kani::any();
        kani::assume(i <= 7);
        let x = crate::verif::rfc::rand_raw_spec(y, i);
        let r = rand(y, i, u32::MAX);
        assert!(r == x % u32::MAX, "C15 rand(y,i,2^32-1) == RFC xor value mod 2^32-1");
        if x != u32::MAX {
            assert!(r == x, "C15 rand's xor value == V0[x0]^V1[x1]^V2[x2]^V3[x3] of the RFC");
        }
        // the one value the reduction by 2^32-1 hides is told apart by a second modulus
        assert!(rand(y, i, 1 << 31) == x % (1 << 31), "C15 rand(y,i,2^31) == RFC xor value mod 2^31");
        kani::cover!(y == 0xFFFF_FFFE && i == 2, "reach: y + i exceeds 2^32");
    }

    // C15: the V0..V3 tables equal the pinned RFC transcription, entry by entry
    #[kani::proof]
    pub(crate) fn v_tables_match_pin() {
        let j: usize = kani::any();
        kani::assume(j < 256);
        assert!(V0[j] == PIN_V0[j], "C15 V0 == RFC 5.5 V0");
        assert!(V1[j] == PIN_V1[j], "C15 V1 == RFC 5.5 V1");
        assert!(V2[j] == PIN_V2[j], "C15 V2 == RFC 5.5 V2");
        assert!(V3[j] == PIN_V3[j], "C15 V3 == RFC 5.5 V3");
        kani::cover!(j == 255, "reach");
    }

    #[kani::proof]
    pub(crate) fn rand_refuses_zero_modulus() {
        let y: u32 = kani::any();
        let i: u32 = kani::any();
        kani::assume(i <= 7);
        let _ = rand(y, i, 0);
        assert!(false, "MARKER C15 rand accepted m == 0");
    }
}
