// verif hook module for src/base.rs (compiled only with --cfg cberner_raptorq_verif)
#![allow(dead_code, unused_imports)]
use super::*;

/// crate-private derivation exposed for the native witness finder
pub fn gen_params(f: u64, p: u16, ws: u64) -> ObjectTransmissionInformation {
    ObjectTransmissionInformation::generate_encoding_parameters(f, p, ws)
}

#[cfg(kani)]
pub(crate) mod kani_oti {
    use super::super::*;

    // C19 witness finder (refusal half): for every parameter set violating the symbols-per-block limit
    // (stated without division: F > 56403 * Z * T  <=>  ceil(ceil(F/T)/Z) > 56403) the constructor must refuse.
    #[kani::proof]
    pub(crate) fn oti_new_refuses_too_many_symbols() {
        let f: u64 = kani::any();
        let t: u16 = kani::any();
        let z: u8 = kani::any();
        let n: u16 = kani::any();
        let al: u8 = kani::any();
        kani::assume(t > 0 && z > 0 && al > 0);
        kani::assume(f <= 942574504275);
        kani::assume(t % (al as u16) == 0);
        kani::assume((f as u128) > 56403u128 * (z as u128) * (t as u128));
        let _ = ObjectTransmissionInformation::new(f, t, z, n, al);
        assert!(false, "MARKER C19 accepted more than 56403 symbols per source block");
    }

    // C19: symbol size not a multiple of the alignment is refused (loop-free, complete)
    #[kani::proof]
    pub(crate) fn oti_new_refuses_misaligned() {
        let f: u64 = kani::any();
        let t: u16 = kani::any();
        let z: u8 = kani::any();
        let n: u16 = kani::any();
        let al: u8 = kani::any();
        kani::assume(t > 0 && z > 0 && al > 0);
        kani::assume(t % (al as u16) != 0);
        let _ = ObjectTransmissionInformation::new(f, t, z, n, al);
        assert!(false, "MARKER C19 accepted a symbol size that is not a multiple of the alignment");
    }

    // C19: transfer length above 942574504275 is refused (loop-free, complete)
    #[kani::proof]
    pub(crate) fn oti_new_refuses_long_object() {
        let f: u64 = kani::any();
        let t: u16 = kani::any();
        let z: u8 = kani::any();
        let n: u16 = kani::any();
        let al: u8 = kani::any();
        kani::assume(t > 0 && z > 0 && al > 0);
        kani::assume(f > 942574504275);
        let _ = ObjectTransmissionInformation::new(f, t, z, n, al);
        assert!(false, "MARKER C19 accepted a transfer length above 942574504275");
    }

    // C19: an accepted configuration reports exactly the values it was given (loop-free, complete)
    #[kani::proof]
    pub(crate) fn oti_new_reports_arguments() {
        let f: u64 = kani::any();
        let t: u16 = kani::any();
        let z: u8 = kani::any();
        let n: u16 = kani::any();
        let al: u8 = kani::any();
        kani::assume(al > 0);
        // a cheap sufficient condition for acceptance keeps CBMC away from the division-heavy part
        kani::assume(f <= 56403 && t > 0 && z > 0 && t % (al as u16) == 0);
        let c = ObjectTransmissionInformation::new(f, t, z, n, al);
        assert!(c.transfer_length() == f, "C19 transfer_length reported");
        assert!(c.symbol_size() == t, "C19 symbol_size reported");
        assert!(c.source_blocks() == z, "C19 source_blocks reported");
        assert!(c.sub_blocks() == n, "C19 sub_blocks reported");
        assert!(c.symbol_alignment() == al, "C19 alignment reported");
        kani::cover!(f == 56403 && t == 8 && al == 8, "reach");
    }
}

#[cfg(kani)]
pub(crate) mod kani_tuple {
    use super::super::*;
    use crate::systematic_constants::verif_hooks::p1_row;
    use crate::verif::rfc::{deg_spec, tuple_spec};
    use crate::verif::rfc_tables::*;

    // C15/C04: Deg[v] for every v < 2^20 and every tabulated W
    #[kani::proof]
    #[kani::unwind(32)]
    pub(crate) fn deg_matches_rfc() {
        let v: u32 = kani::any();
        let idx: usize = kani::any();
        kani::assume(v < 1048576);
        kani::assume(idx < 477);
        let w = SYSTEMATIC_INDICES_AND_PARAMETERS[idx].4;
        let d = deg(v, w);
        assert!(d == deg_spec(v, w), "C15 deg == RFC Deg[v]");
        assert!(1 <= d && d <= 30 && d <= w - 2, "C15 1 <= d <= min(30, W-2)");
        kani::cover!(v == 1048575 && idx == 0, "reach");
    }

    #[kani::proof]
    pub(crate) fn deg_refuses_large_v() {
        let v: u32 = kani::any();
        kani::assume(v >= 1048576);
        let _ = deg(v, 17);
        assert!(false, "MARKER C15 deg accepted v >= 2^20");
    }

    // C15/C04: Tuple[K', X] for a symbolic table row and every internal symbol id reachable from a 24-bit ESI
    // (X = ESI + K' - K < 2^24 + K'): equals the RFC tuple, lies in range, no panic, no overflow.
    // C15: Tuple[K', X] for a symbolic table row and every internal symbol id reachable from a 24-bit ESI: every component in
    // range, no panic, no arithmetic overflow on any path (the real rand and deg inlined).  Equality with the RFC tuple is an
    // integer-arithmetic statement (64-bit products) and is proved in the Verus unit V-RNG instead.
    #[kani::proof]
    #[kani::unwind(32)]
    pub(crate) fn tuple_in_range_no_panic() {
        let idx: usize = kani::any();
        let x: u32 = kani::any();
        kani::assume(idx < 477);
        let (kp, j, _s, _h, w) = SYSTEMATIC_INDICES_AND_PARAMETERS[idx];
        let p1 = p1_row(idx).1;
        kani::assume((x as u64) < 16777216u64 + kp as u64);
        let (d, a, b, d1, a1, b1) = intermediate_tuple(x, w, j, p1);
        assert!(1 <= d && d <= 30 && d <= w - 2, "C15 1 <= d <= min(30, W-2)");
        assert!(1 <= a && a < w, "C15 1 <= a < W");
        assert!(b < w, "C15 b < W");
        assert!(d1 == 2 || d1 == 3, "C15 d1 is 2 or 3");
        assert!(1 <= a1 && a1 < p1, "C15 1 <= a1 < P1");
        assert!(b1 < p1, "C15 b1 < P1");
        kani::cover!(idx == 118 && x == 3158229, "reach: the ISI whose y is 2^32 - 1");
    }
}

#[cfg(kani)]
pub(crate) mod kani_wire {
    use super::super::*;

    // C13: PayloadId wire layout (RFC 6330 3.2): SBN, then 24-bit ESI big-endian; lossless both ways. Loop-free: complete.
    #[kani::proof]
    pub(crate) fn payload_id_value_roundtrip() {
        let sbn: u8 = kani::any();
        let esi: u32 = kani::any();
        kani::assume(esi < 16777216);
        let id = PayloadId::new(sbn, esi);
        assert!(id.source_block_number() == sbn && id.encoding_symbol_id() == esi, "C13 PayloadId accessors");
        let b = id.serialize();
        assert!(b[0] == sbn, "C13 byte 0 is the source block number");
        assert!(u32::from_be_bytes([0, b[1], b[2], b[3]]) == esi, "C13 bytes 1..4 are the ESI big-endian");
        let back = PayloadId::deserialize(&b);
        assert!(back == id, "C13 deserialize(serialize(id)) == id");
        kani::cover!(esi == 0xABCDEF && sbn == 0x12, "reach");
    }

    #[kani::proof]
    pub(crate) fn payload_id_bytes_roundtrip() {
        let b: [u8; 4] = kani::any();
        let id = PayloadId::deserialize(&b);
        assert!(id.source_block_number() == b[0], "C13 SBN is byte 0");
        assert!(id.encoding_symbol_id() == u32::from_be_bytes([0, b[1], b[2], b[3]]), "C13 ESI is bytes 1..4 big-endian");
        assert!(id.encoding_symbol_id() < 16777216, "C13 parsed ESI is 24-bit");
        assert!(id.serialize() == b, "C13 serialize(deserialize(b)) == b");
        kani::cover!(b[1] == 0xFF && b[3] == 1, "reach");
    }

    #[kani::proof]
    pub(crate) fn payload_id_refuses_25_bit_esi() {
        let sbn: u8 = kani::any();
        let esi: u32 = kani::any();
        kani::assume(esi >= 16777216);
        let _ = PayloadId::new(sbn, esi);
        assert!(false, "MARKER C13 PayloadId::new accepted an ESI >= 2^24");
    }

    // C13: OTI wire layout (RFC 6330 3.3.2/3.3.3): 40-bit F, reserved, 16-bit T | Z, 16-bit N, Al; all big-endian.
    // deserialize is onto the representable values (F < 2^40), so this covers every representable value.
    #[kani::proof]
    pub(crate) fn oti_bytes_roundtrip() {
        let b: [u8; 12] = kani::any();
        let c = ObjectTransmissionInformation::deserialize(&b);
        assert!(c.transfer_length() == u64::from_be_bytes([0, 0, 0, b[0], b[1], b[2], b[3], b[4]]), "C13 F is bytes 0..5 big-endian");
        assert!(c.symbol_size() == u16::from_be_bytes([b[6], b[7]]), "C13 T is bytes 6..8 big-endian");
        assert!(c.source_blocks() == b[8], "C13 Z is byte 8");
        assert!(c.sub_blocks() == u16::from_be_bytes([b[9], b[10]]), "C13 N is bytes 9..11 big-endian");
        assert!(c.symbol_alignment() == b[11], "C13 Al is byte 11");
        let s = c.serialize();
        let mut want = b;
        want[5] = 0;
        assert!(s == want, "C13 serialize(deserialize(b)) == b except the reserved byte, which is zero");
        let back = ObjectTransmissionInformation::deserialize(&s);
        assert!(back == c, "C13 deserialize(serialize(x)) == x");
        kani::cover!(b[0] == 0xDB && b[5] == 0x77 && b[11] == 8, "reach");
    }

    // C13: values built by the constructor serialise to the same layout
    #[kani::proof]
    pub(crate) fn oti_value_roundtrip() {
        let f: u64 = kani::any();
        let t: u16 = kani::any();
        let z: u8 = kani::any();
        let n: u16 = kani::any();
        let al: u8 = kani::any();
        kani::assume(al > 0 && t > 0 && z > 0 && f <= 56403 && t % (al as u16) == 0);
        let c = ObjectTransmissionInformation::new(f, t, z, n, al);
        let s = c.serialize();
        assert!(u64::from_be_bytes([0, 0, 0, s[0], s[1], s[2], s[3], s[4]]) == f, "C13 F serialised big-endian in 40 bits");
        assert!(s[5] == 0, "C13 reserved byte is zero");
        assert!(u16::from_be_bytes([s[6], s[7]]) == t && s[8] == z && u16::from_be_bytes([s[9], s[10]]) == n && s[11] == al, "C13 T,Z,N,Al serialised");
        assert!(ObjectTransmissionInformation::deserialize(&s) == c, "C13 deserialize(serialize(x)) == x");
        kani::cover!(f == 56403 && t == 1024 && al == 8, "reach");
    }

    // C13 (bounded stand-in for any-length packets, see V-PKT): payload length <= 8
    #[kani::proof]
    #[kani::unwind(14)]
    pub(crate) fn packet_roundtrip_bounded() {
        let sbn: u8 = kani::any();
        let esi: u32 = kani::any();
        kani::assume(esi < 16777216);
        let len: usize = kani::any();
        kani::assume(len <= 8);
        let raw: [u8; 8] = kani::any();
        let data = raw[..len].to_vec();
        let p = EncodingPacket::new(PayloadId::new(sbn, esi), data);
        let s = p.serialize();
        assert!(s.len() == 4 + len, "C13 packet is 4 + payload bytes");
        let idb = p.payload_id().serialize();
        assert!(s[0] == idb[0] && s[1] == idb[1] && s[2] == idb[2] && s[3] == idb[3], "C13 packet starts with the payload id");
        let k: usize = kani::any();
        kani::assume(k < len);
        assert!(s[4 + k] == raw[k], "C13 payload bytes follow the id");
        let back = EncodingPacket::deserialize(&s);
        assert!(back == p, "C13 deserialize(serialize(p)) == p");
        assert!(back.serialize() == s, "C13 serialize(deserialize(buf)) == buf");
        kani::cover!(len == 8, "reach");
    }
}

#[cfg(kani)]
pub(crate) mod kani_param {
    use super::super::*;

    // C14 witness finder (bounded domain, not a proof): P = 1024 (Al = 8, T = 1024, N_max = 16), 1 <= F <= 2^20,
    // WS >= 640. In this domain a valid configuration always exists (WS/(8*ceil(1024/(8*16))) >= 10 and Z <= 103),
    // so the derivation must not panic, must give T = 1024, Al = 8, 1 <= N <= 16, and Z = 1 once the budget admits K' = 56403.
    #[kani::proof]
    #[kani::unwind(480)]
    pub(crate) fn params_defined_for_p1024() {
        let f: u64 = kani::any();
        let ws: u64 = kani::any();
        kani::assume(1 <= f && f <= 1048576);
        kani::assume(ws >= 640);
        let c = ObjectTransmissionInformation::generate_encoding_parameters(f, 1024, ws);
        assert!(c.symbol_size() == 1024 && c.symbol_alignment() == 8, "C14 T = 1024, Al = 8");
        assert!(c.source_blocks() >= 1, "C14 Z >= 1");
        assert!(1 <= c.sub_blocks() && c.sub_blocks() <= 16, "C14 1 <= N <= N_max");
        if ws >= 56403 * 64 {
            assert!(c.source_blocks() == 1, "C14 a budget admitting K' = 56403 gives one source block for Kt <= 1024");
        }
        kani::cover!(ws == 5000, "reach");
    }
}
