// verif hook module for src/base.rs (compiled only with --cfg cberner_raptorq_verif)
#![allow(dead_code, unused_imports)]
use super::*;

#[cfg(kani)]
pub(crate) mod kani_oti {
    use super::super::*;

    // C19 witness finder (refusal half): for every parameter set violating the symbols-per-block limit
    // (stated without division: F > 56403 * Z * T  <=>  ceil(ceil(F/T)/Z) > 56403) the constructor must refuse.
    #[kani::proof]
    pub(crate) fn oti_new_refuses_too_many_symbols() {
        let f: u64 = kani::any();
        let t: u16 = kani::any();
        let z: u8 = kani::any();
        let n: u16 = kani::any();
        let al: u8 = kani::any();
        kani::assume(t > 0 && z > 0 && al > 0);
        kani::assume(f <= 942574504275);
        kani::assume(t % (al as u16) == 0);
        kani::assume((f as u128) > 56403u128 * (z as u128) * (t as u128));
        let _ = ObjectTransmissionInformation::new(f, t, z, n, al);
        assert!(false, "MARKER C19 accepted more than 56403 symbols per source block");
    }

    // C19: an accepted configuration reports exactly the values it was given (loop-free, complete)
    #[kani::proof]
    pub(crate) fn oti_new_reports_arguments() {
        let f: u64 = kani::any();
        let t: u16 = kani::any();
        let z: u8 = kani::any();
        let n: u16 = kani::any();
        let al: u8 = kani::any();
        kani::assume(al > 0);
        // a cheap sufficient condition for acceptance keeps CBMC away from the division-heavy part
        kani::assume(f <= 56403 && t > 0 && z > 0 && t % (al as u16) == 0);
        let c = ObjectTransmissionInformation::new(f, t, z, n, al);
        assert!(c.transfer_length() == f, "C19 transfer_length reported");
        assert!(c.symbol_size() == t, "C19 symbol_size reported");
        assert!(c.source_blocks() == z, "C19 source_blocks reported");
        assert!(c.sub_blocks() == n, "C19 sub_blocks reported");
        assert!(c.symbol_alignment() == al, "C19 alignment reported");
        kani::cover!(f == 56403 && t == 8 && al == 8, "reach");
    }
}
