// verif hook module for src/base.rs (compiled only with --cfg cberner_raptorq_verif)
#![allow(dead_code, unused_imports)]
use super::*;

#[cfg(kani)]
pub(crate) mod kani_oti {
    use super::super::*;

    // C19 witness finder (refusal half): for every parameter set violating the symbols-per-block limit
    // (stated without division: F > 56403 * Z * T  <=>  ceil(ceil(F/T)/Z) > 56403) the constructor must refuse.
    #[kani::proof]
    pub(crate) fn oti_new_refuses_too_many_symbols() {
        let f: u64 = kani::any();
        let t: u16 = kani::any();
        let z: u8 = kani::any();
        let n: u16 = kani::any();
        let al: u8 = kani::any();
        kani::assume(t > 0 && z > 0 && al > 0);
        kani::assume(f <= 942574504275);
        kani::assume(t % (al as u16) == 0);
        kani::assume((f as u128) > 56403u128 * (z as u128) * (t as u128));
        let _ = ObjectTransmissionInformation::new(f, t, z, n, al);
        assert!(false, "MARKER C19 accepted more than 56403 symbols per source block");
    }

    // C19: an accepted configuration reports exactly the values it was given (loop-free, complete)
    #[kani::proof]
    pub(crate) fn oti_new_reports_arguments() {
        let f: u64 = kani::any();
        let t: u16 = kani::any();
        let z: u8 = kani::any();
        let n: u16 = kani::any();
        let al: u8 = kani::any();
        kani::assume(al > 0);
        // a cheap sufficient condition for acceptance keeps CBMC away from the division-heavy part
        kani::assume(f <= 56403 && t > 0 && z > 0 && t % (al as u16) == 0);
        let c = ObjectTransmissionInformation::new(f, t, z, n, al);
        assert!(c.transfer_length() == f, "C19 transfer_length reported");
        assert!(c.symbol_size() == t, "C19 symbol_size reported");
        assert!(c.source_blocks() == z, "C19 source_blocks reported");
        assert!(c.sub_blocks() == n, "C19 sub_blocks reported");
        assert!(c.symbol_alignment() == al, "C19 alignment reported");
        kani::cover!(f == 56403 && t == 8 && al == 8, "reach");
    }
}

#[cfg(kani)]
pub(crate) mod kani_tuple {
    use super::super::*;
    use crate::systematic_constants::verif_hooks::p1_row;
    use crate::verif::rfc::{deg_spec, tuple_spec};
    use crate::verif::rfc_tables::*;

    // C15/C04: Deg[v] for every v < 2^20 and every tabulated W
    #[kani::proof]
    #[kani::unwind(32)]
    pub(crate) fn deg_matches_rfc() {
        let v: u32 = kani::any();
        let idx: usize = kani::any();
        kani::assume(v < 1048576);
        kani::assume(idx < 477);
        let w = SYSTEMATIC_INDICES_AND_PARAMETERS[idx].4;
        let d = deg(v, w);
        assert!(d == deg_spec(v, w), "C15 deg == RFC Deg[v]");
        assert!(1 <= d && d <= 30 && d <= w - 2, "C15 1 <= d <= min(30, W-2)");
        kani::cover!(v == 1048575 && idx == 0, "reach");
    }

    #[kani::proof]
    pub(crate) fn deg_refuses_large_v() {
        let v: u32 = kani::any();
        kani::assume(v >= 1048576);
        let _ = deg(v, 17);
        assert!(false, "MARKER C15 deg accepted v >= 2^20");
    }

    // C15/C04: Tuple[K', X] for a symbolic table row and every internal symbol id reachable from a 24-bit ESI
    // (X = ESI + K' - K < 2^24 + K'): equals the RFC tuple, lies in range, no panic, no overflow.
    #[kani::proof]
    #[kani::unwind(32)]
    pub(crate) fn tuple_matches_rfc() {
        let idx: usize = kani::any();
        let x: u32 = kani::any();
        kani::assume(idx < 477);
        let (kp, j, _s, _h, w) = SYSTEMATIC_INDICES_AND_PARAMETERS[idx];
        let p1 = p1_row(idx).1;
        kani::assume((x as u64) < 16777216u64 + kp as u64);
        let (d, a, b, d1, a1, b1) = intermediate_tuple(x, w, j, p1);
        let s = tuple_spec(idx, x);
        assert!((d, a, b, d1, a1, b1) == s, "C15 intermediate_tuple == RFC Tuple[K',X]");
        assert!(1 <= d && d <= 30 && d <= w - 2, "C15 1 <= d <= min(30, W-2)");
        assert!(1 <= a && a < w, "C15 1 <= a < W");
        assert!(b < w, "C15 b < W");
        assert!(d1 == 2 || d1 == 3, "C15 d1 in {2,3}");
        assert!(1 <= a1 && a1 < p1, "C15 1 <= a1 < P1");
        assert!(b1 < p1, "C15 b1 < P1");
        kani::cover!(idx == 118 && x == 3158229, "reach: the ISI whose y is 2^32 - 1");
    }
}
