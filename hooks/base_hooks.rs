// verif hook module for src/base.rs (compiled only with --cfg cberner_raptorq_verif)
