// crate-root verif module
