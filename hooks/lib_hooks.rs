// crate-root verif module (compiled only with --cfg cberner_raptorq_verif)
#![allow(dead_code, unused_imports)]
#[path = "/verif/spec/gf.rs"]
pub mod gf;
#[path = "/verif/spec/rfc.rs"]
pub mod rfc;
#[path = "/verif/spec/rfc_tables.rs"]
pub mod rfc_tables;

/// public wrappers around the crate-private hook functions (for the native witness finders in /verif/replay)
pub mod base_hooks {
    pub fn gen_params(f: u64, p: u16, ws: u64) -> crate::ObjectTransmissionInformation {
        crate::base::verif_hooks::gen_params(f, p, ws)
    }
}

// native replay of a Kani counterexample (concrete playback): the scratch file is written by /verif/lib/kunit.py
#[cfg(all(kani, cberner_raptorq_verif_playback))]
#[path = "/verif/.build/playback/pb.rs"]
mod playback;
