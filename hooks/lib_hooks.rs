// crate-root verif module (compiled only with --cfg cberner_raptorq_verif)
#[path = "/verif/spec/gf.rs"]
pub mod gf;

// native replay of a Kani counterexample (concrete playback): the scratch file is written by /verif/lib/kunit.py
#[cfg(all(kani, cberner_raptorq_verif_playback))]
#[path = "/verif/.build/playback/pb.rs"]
mod playback;
