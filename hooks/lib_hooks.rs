// crate-root verif module (compiled only with --cfg cberner_raptorq_verif)
#![allow(dead_code, unused_imports)]
#[path = "/verif/spec/gf.rs"]
pub mod gf;
#[path = "/verif/spec/rfc.rs"]
pub mod rfc;
#[path = "/verif/spec/rfc_tables.rs"]
pub mod rfc_tables;

/// public wrappers around the crate-private hook functions (for the native witness finders in /verif/replay)
pub mod base_hooks {
    pub fn gen_params(f: u64, p: u16, ws: u64) -> crate::ObjectTransmissionInformation {
        crate::base::verif_hooks::gen_params(f, p, ws)
    }
}

// native replay of a Kani counterexample (concrete playback): the scratch file is written by /verif/lib/kunit.py
#[cfg(all(kani, cberner_raptorq_verif_playback))]
#[path = "/verif/.build/playback/pb.rs"]
mod playback;

// K-SPARSE (C16, BOUNDED): the sparse matrix against the dense matrix (which V-DENSE proves equal to the abstract bit array)
#[cfg(kani)]
pub(crate) mod kani_sparse {
    use crate::matrix::{BinaryMatrix, DenseBinaryMatrix};
    use crate::octet::Octet;
    use crate::sparse_matrix::SparseBinaryMatrix;

    fn oct(b: bool) -> Octet {
        if b { Octet::one() } else { Octet::zero() }
    }

    fn same_cells(s: &SparseBinaryMatrix, d: &DenseBinaryMatrix, h: usize, w: usize) {
        let i: usize = kani::any();
        let j: usize = kani::any();
        kani::assume(i < h && j < w);
        assert!(s.get(i, j) == d.get(i, j), "C16 sparse matrix cell == dense matrix cell");
    }

    // freezing columns into the dense tail across the 127 -> 128 -> 129 column boundaries (2 -> 3 words per row)
    #[kani::proof]
    #[kani::unwind(136)]
    pub(crate) fn sparse_freeze_across_word_boundary() {
        const H: usize = 2;
        const W: usize = 133;
        let hint = 127;
        let mut s = SparseBinaryMatrix::new(H, W, hint);
        let mut d = DenseBinaryMatrix::new(H, W, hint);
        // symbolic contents on a set of cells that covers every dense word, both columns to be frozen, and a sparse column
        // symbolic values on three cells: one in each old dense word and the column frozen across the word boundary
        // (everything else stays concrete: the sparse matrix code is too heavy for CBMC with more symbolic state)
        let cells: [(usize, usize); 3] = [(0, W - 1), (1, W - 127), (0, W - 129)];
        let mut k = 0;
        while k < 3 {
            let v: bool = kani::any();
            s.set(cells[k].0, cells[k].1, oct(v));
            d.set(cells[k].0, cells[k].1, oct(v));
            k += 1;
        }
        s.enable_column_access_acceleration();
        s.hint_column_dense_and_frozen(W - 128);
        s.hint_column_dense_and_frozen(W - 129);
        let mut k = 0;
        while k < 3 {
            assert!(s.get(cells[k].0, cells[k].1) == d.get(cells[k].0, cells[k].1), "C16 frozen / dense-tail cell unchanged by freezing a column");
            k += 1;
        }
        assert!(s.get(1, W - 1) == d.get(1, W - 1) && s.get(0, W - 127) == d.get(0, W - 127) && s.get(1, W - 129) == d.get(1, W - 129), "C16 untouched cells stay zero");
    }

    // one symbolic operation on a small matrix: 2 x 5 with a 2-column dense tail, 5 symbolic cells
    #[kani::proof]
    #[kani::unwind(8)]
    pub(crate) fn sparse_ops_small() {
        const H: usize = 2;
        const W: usize = 5;
        let hint = 2;
        let mut s = SparseBinaryMatrix::new(H, W, hint);
        let mut d = DenseBinaryMatrix::new(H, W, hint);
        let cells: [(usize, usize); 5] = [(0, 0), (0, 2), (1, 1), (1, 3), (0, 4)];
        let mut k = 0;
        while k < 5 {
            let v: bool = kani::any();
            s.set(cells[k].0, cells[k].1, oct(v));
            d.set(cells[k].0, cells[k].1, oct(v));
            k += 1;
        }
        let mut step = 0;
        while step < 1 {
            let op: u8 = kani::any();
            let a: usize = kani::any();
            let b: usize = kani::any();
            kani::assume(a < H && b < H);
            match op % 3 {
                0 => {
                    s.swap_rows(a, b);
                    d.swap_rows(a, b);
                }
                1 => {
                    let ca: usize = kani::any();
                    let cb: usize = kani::any();
                    kani::assume(ca < W - hint && cb < W - hint);
                    s.swap_columns(ca, cb, 0);
                    d.swap_columns(ca, cb, 0);
                }
                _ => {
                    if a != b {
                        s.add_assign_rows(a, b, 0);
                        d.add_assign_rows(a, b, 0);
                    }
                }
            }
            step += 1;
        }
        same_cells(&s, &d, H, W);
        let r: usize = kani::any();
        kani::assume(r < H);
        assert!(s.count_ones(r, 0, W - hint) == d.count_ones(r, 0, W - hint), "C16 count_ones agrees on the sparse part");
        assert!(s.query_non_zero_columns(r, W - hint) == d.query_non_zero_columns(r, W - hint), "C16 query_non_zero_columns agrees on the dense tail");
    }
}
