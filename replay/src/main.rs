//! Native contract evaluators ("witness finders"): consulted only AFTER a Verus obligation failed, to turn it into a
//! replayable input against the real code (Verus gives no counterexample). They link the real crate with the hooks on.
use raptorq::verif as v;
use std::panic;

/// RFC 6330 4.3 oracle in u128 arithmetic with its own table scan (pinned table).
fn rfc_params(f: u128, p: u128, ws: u128) -> Option<(u128, u128, u128, u128)> {
    let (al, ss) = if p >= 64 { (8u128, 8u128) } else { (1, 1) };
    if p < al {
        return None;
    }
    let t = p - p % al;
    if t == 0 || f == 0 {
        return None;
    }
    let kt = (f + t - 1) / t;
    let nmax = t / (ss * al);
    if nmax == 0 {
        return None;
    }
    let kl = |n: u128| -> u128 {
        let x = (t + al * n - 1) / (al * n);
        let q = ws / (al * x);
        let mut best = 0u128;
        for row in v::rfc_tables::PIN_TABLE2.iter() {
            let kp = row.0 as u128;
            if kp <= q && kp > best {
                best = kp;
            }
        }
        best
    };
    let klmax = kl(nmax);
    if klmax == 0 {
        return None;
    }
    let z = (kt + klmax - 1) / klmax;
    if z > 255 || z == 0 {
        return None;
    }
    let per = (kt + z - 1) / z;
    let mut n = 0;
    for cand in 1..=nmax {
        if per <= kl(cand) {
            n = cand;
            break;
        }
    }
    if n == 0 {
        return None;
    }
    Some((t, z, n, al))
}

fn param_search(seed: u64) -> i32 {
    // deterministic grid + seeded pseudo-random points; stops at the first disagreement with the RFC derivation
    let ps: [u64; 9] = [1, 7, 63, 64, 100, 512, 1024, 1500, 65535];
    let mut cases: Vec<(u64, u64, u64)> = vec![];
    for &p in ps.iter() {
        for &f in [1u64, 10, 1000, 321 * 1024, 1 << 20, 10_000_000, 1 << 32, 942574504275].iter() {
            for &ws in [10u64, 640, 5000, 12800, 100_000, 10 * 1024 * 1024, 1 << 32, 1 << 35, 1 << 40, u64::MAX].iter() {
                cases.push((f, p, ws));
            }
        }
    }
    let mut x = seed.wrapping_mul(6364136223846793005).wrapping_add(1442695040888963407) | 1;
    for _ in 0..20000 {
        x ^= x << 13;
        x ^= x >> 7;
        x ^= x << 17;
        let p = 1 + (x % 65535);
        let f = 1 + ((x >> 16) % (1u64 << (1 + (x >> 56) % 40)));
        let ws = 1 + ((x >> 8) % (1u64 << (1 + (x >> 50) % 44)));
        cases.push((f.min(942574504275), p, ws));
    }
    panic::set_hook(Box::new(|_| {}));
    let mut checked = 0u64;
    for (f, p, ws) in cases {
        let want = match rfc_params(f as u128, p as u128, ws as u128) {
            Some(w) => w,
            None => continue, // no valid configuration exists: outside the property's domain
        };
        checked += 1;
        let got = panic::catch_unwind(|| v::base_hooks::gen_params(f, p as u16, ws));
        match got {
            Err(_) => {
                println!("WITNESS C14 F={} P={} WS={} : real code PANICS, RFC derivation gives (T,Z,N,Al)={:?}", f, p, ws, want);
                return 1;
            }
            Ok(c) => {
                let g = (c.symbol_size() as u128, c.source_blocks() as u128, c.sub_blocks() as u128, c.symbol_alignment() as u128);
                if g != want {
                    println!("WITNESS C14 F={} P={} WS={} : real code gives (T,Z,N,Al)={:?}, RFC derivation gives {:?}", f, p, ws, g, want);
                    return 1;
                }
            }
        }
    }
    println!("no witness among {} in-domain cases", checked);
    0
}

fn param_one(f: u64, p: u64, ws: u64) -> i32 {
    let want = rfc_params(f as u128, p as u128, ws as u128);
    let got = panic::catch_unwind(|| v::base_hooks::gen_params(f, p as u16, ws));
    match (want, got) {
        (None, _) => {
            println!("no valid configuration exists for this input: outside the property");
            0
        }
        (Some(w), Err(_)) => {
            println!("REPLAY C14 F={} P={} WS={}: real code panics; RFC gives {:?}", f, p, ws, w);
            1
        }
        (Some(w), Ok(c)) => {
            let g = (c.symbol_size() as u128, c.source_blocks() as u128, c.sub_blocks() as u128, c.symbol_alignment() as u128);
            println!("REPLAY C14 F={} P={} WS={}: real {:?} rfc {:?}", f, p, ws, g, w);
            if g != w { 1 } else { 0 }
        }
    }
}

fn main() {
    let a: Vec<String> = std::env::args().collect();
    let rc = match a.get(1).map(|s| s.as_str()) {
        Some("param-search") => param_search(a.get(2).and_then(|s| s.parse().ok()).unwrap_or(0)),
        Some("param-one") => param_one(a[2].parse().unwrap(), a[3].parse().unwrap(), a[4].parse().unwrap()),
        _ => {
            eprintln!("usage: verif_replay param-search [seed] | param-one F P WS");
            2
        }
    };
    std::process::exit(rc);
}
