#!/bin/bash
# usage: confirm_mutant.sh <worktree> <PROP> <name>
# Confirms in the scratch worktree: (1) with patch: crate builds, existing lib tests pass, demo FAILS; (2) without patch: demo PASSES.
# Then stores /verif/seeded/<name>/{patch.diff,demo,confirm.log}
set -u
WT=$1; PROP=$2; NAME=$3
OUT=/verif/seeded/$NAME; mkdir -p $OUT
cd $WT || exit 2
DEMO=$(ls tests/demo_*.rs 2>/dev/null | head -1)
LOG=$OUT/confirm.log; : > $LOG
if [ -f demo_inline.diff ]; then
  # inline demo: make sure the working tree holds only the src change
  git apply -R demo_inline.diff 2>/dev/null
  cp demo_inline.diff $OUT/
fi
git diff -- src > $OUT/patch.diff
[ -s $OUT/patch.diff ] || { echo "empty patch" | tee -a $LOG; exit 2; }
[ -n "$DEMO" ] && cp $DEMO $OUT/
FEAT=""
grep -q "features benchmarking" ${DEMO:-/dev/null} 2>/dev/null && FEAT="--features benchmarking"
echo "== with patch: lib tests" >> $LOG
cargo test --offline --lib 2>&1 | grep -E "^test result|FAILED|panicked" | head -5 >> $LOG
if [ -f demo_inline.diff ]; then
  git apply demo_inline.diff
  echo "== with patch: inline demo" >> $LOG
  cargo test --offline --lib demo_ 2>&1 | grep -E "^test result|^test .* (ok|FAILED)" | head -20 >> $LOG
  git apply -R $OUT/patch.diff
  echo "== without patch: inline demo" >> $LOG
  cargo test --offline --lib demo_ 2>&1 | grep -E "^test result|^test .* (ok|FAILED)" | head -20 >> $LOG
  git apply $OUT/patch.diff
  git apply -R demo_inline.diff
else
  T=$(basename ${DEMO:-none} .rs)
  echo "== with patch: demo ($T) $FEAT" >> $LOG
  cargo test --offline $FEAT --test $T 2>&1 | grep -E "^test result|^test .* (ok|FAILED)" | head -20 >> $LOG
  git apply -R $OUT/patch.diff
  echo "== without patch: demo ($T) $FEAT" >> $LOG
  cargo test --offline $FEAT --test $T 2>&1 | grep -E "^test result|^test .* (ok|FAILED)" | head -20 >> $LOG
  git apply $OUT/patch.diff
fi
cat $LOG
