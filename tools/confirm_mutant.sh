#!/bin/bash
# usage: confirm_mutant.sh <worktree> <PROP> <name>
# Confirms in the scratch worktree: (1) with patch: crate builds, existing lib tests pass, demo FAILS; (2) without patch: demo PASSES.
# Then stores /verif/seeded/<name>/{patch.diff,demo,confirm.log}
set -u
WT=$1; PROP=$2; NAME=$3
OUT=/verif/seeded/$NAME; mkdir -p $OUT
cd $WT || exit 2
DEMO=$(ls tests/demo_*.rs 2>/dev/null | head -1)
LOG=$OUT/confirm.log; : > $LOG
git diff -- src > $OUT/patch.diff
[ -s $OUT/patch.diff ] || { echo "empty patch" | tee -a $LOG; exit 2; }
[ -n "$DEMO" ] && cp $DEMO $OUT/ 
[ -f demo_inline.diff ] && cp demo_inline.diff $OUT/
T=$(basename ${DEMO:-none} .rs)
echo "== with patch: lib tests" >> $LOG
cargo test --offline --lib 2>&1 | grep -E "^test result|FAILED|panicked" | head -5 >> $LOG
echo "== with patch: demo ($T)" >> $LOG
cargo test --offline --test $T 2>&1 | grep -E "^test result|^test .* (ok|FAILED)" | head -20 >> $LOG
git apply -R $OUT/patch.diff
echo "== without patch: demo ($T)" >> $LOG
cargo test --offline --test $T 2>&1 | grep -E "^test result|^test .* (ok|FAILED)" | head -20 >> $LOG
git apply $OUT/patch.diff
cat $LOG
