#!/usr/bin/env python3
"""regenerate /verif/MANIFEST.json from props.py (single source of truth)"""
import sys, os, json, subprocess
HERE = os.path.dirname(os.path.dirname(os.path.abspath(__file__)))
sys.path[:0] = [os.path.join(HERE, 'lib'), HERE]
import props as P

ids = [json.loads(l)['id'] for l in open(os.path.join(HERE, 'properties.jsonl'))]
hook_commits = subprocess.run(['git', '-C', '/repo', 'log', '--format=%h %s', '--grep', '^verif hook'], capture_output=True, text=True).stdout.strip().split('\n')
man = {
    'version': 1,
    'setup_cmd': 'cd /verif && ./tools/setup.sh',
    'hooks': {
        'guard': 'cberner_raptorq_verif',
        'enable': 'RUSTFLAGS="--cfg cberner_raptorq_verif" (rustc cfg, no cargo feature). Each hook is one `#[cfg(cberner_raptorq_verif)] #[path = "/verif/hooks/<file>_hooks.rs"] mod` line; with the guard off the path is never opened. Kani harnesses inside those modules are additionally under cfg(kani). Verus units need no hooks (they read source text).',
        'baseline_off_cmd': 'cd /repo && cargo test --workspace --no-fail-fast --offline',
        'source_commits': [c.split()[0] for c in hook_commits if c],
        'add_only': True,
    },
    'engines': [
        {'name': 'verus-extract', 'path': '/verif/lib/vunit.py + /verif/lib/rsx.py + /verif/units/*.py',
         'serves_properties': [p for p in ids if p in P.PROPS and any(u[0] == 'V' for u in P.PROPS[p]['units'])],
         'kind_free_text': 'Verus 0.2026.09.13 on functions extracted mechanically from /repo/src on every run, contracts spliced in; canary file guards against vacuous preconditions'},
        {'name': 'kani-incrate', 'path': '/verif/lib/kunit.py + /verif/hooks/*.rs',
         'serves_properties': [p for p in ids if p in P.PROPS and any(u[0] == 'K' for u in P.PROPS[p]['units'])],
         'kind_free_text': 'Kani 0.68 / CBMC 6.11 harness-form contracts compiled inside the real crate; complete (loop-free / fully unwound, full-domain) harnesses count as proof, bounded ones are listed separately; counterexamples replayed natively via concrete playback'},
    ],
    'checks': [],
    'not_applicable': [],
    'notes': 'contract-based deductive verification; see DESIGN.md. exit 2 from a check = undecided (tooling), never a violation.',
}
for pid in ids:
    if pid in P.PROPS:
        s = P.PROPS[pid]
        man['checks'].append({
            'property_id': pid,
            'quick_cmd': './check %s --tier quick' % pid,
            'thorough_cmd': './check %s --tier thorough' % pid,
            'evidence_file': '/verif/evidence/%s.json' % pid,
            'replay_cmd_template': './check %s --replay {path}' % pid,
            'engine': '+'.join(sorted(set('verus-extract' if u[0] == 'V' else 'kani-incrate' for u in s['units']))),
            'level_claimed': {'category': s['level'], 'text': s['explanation'], 'design_ref': 'DESIGN.md section 6 (%s)' % pid},
            'level_note': '; '.join(s.get('assumptions', [])) + ((' NOT DECIDED: ' + '; '.join(s['not_decided'])) if s.get('not_decided') else ''),
            'technique': s.get('technique', 'contract-based deductive verification: ' + ', '.join('%s (%s)' % (u[1], 'Verus on extracted real functions' if u[0] == 'V' else 'Kani harness-form contracts on the real crate') for u in s['units'])),
        })
    else:
        man['not_applicable'].append({'property_id': pid, 'reason': P.NOT_APPLICABLE.get(pid, 'not yet under contract in this revision of /verif (work in progress; see DESIGN.md)')})
json.dump(man, open(os.path.join(HERE, 'MANIFEST.json'), 'w'), indent=1)
print('checks:', [c['property_id'] for c in man['checks']], 'n/a:', [n['property_id'] for n in man['not_applicable']])
