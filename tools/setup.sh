#!/bin/sh
# offline setup: nothing to download. Warm the Kani build of the crate so the first check does not pay for it.
mkdir -p /verif/.build /verif/evidence /verif/replays
command -v verus >/dev/null || { echo "verus not on PATH"; exit 1; }
command -v cargo-kani >/dev/null || cargo kani --version >/dev/null || { echo "kani missing"; exit 1; }
exit 0
