#!/bin/bash
# run every claimed check (quick tier by default) and print one line per property
cd /verif
TIER=${1:-quick}
for p in $(python3 -c "import json;print(' '.join(c['property_id'] for c in json.load(open('MANIFEST.json'))['checks']))"); do
  s=$(date +%s); out=$(./check $p --tier $TIER 2>&1 | tail -3 | tr '\n' ' '); rc=$?; e=$(date +%s)
  echo "$p $((e-s))s :: $out"
done
