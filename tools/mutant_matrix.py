#!/usr/bin/env python3
"""run the checks against every seeded change (in a scratch worktree, VERIF_REPO), record rc + VIOLATION lines in meta.json"""
import json, os, subprocess, sys, glob
WT = '/tmp/wt/mine'
only = sys.argv[1:]
subprocess.run(['git', '-C', WT, 'checkout', '-q', '--detach', 'main'], check=True)
for d in sorted(glob.glob('/verif/seeded/*/')):
    name = os.path.basename(d.rstrip('/'))
    if only and name not in only:
        continue
    meta = json.load(open(d + 'meta.json'))
    prop = meta['property']
    subprocess.run(['git', '-C', WT, 'checkout', '-q', '--', '.'], check=True)
    ap = subprocess.run(['git', '-C', WT, 'apply', d + 'patch.diff'], capture_output=True, text=True)
    if ap.returncode != 0:
        ap = subprocess.run(['git', '-C', WT, 'apply', '-3', d + 'patch.diff'], capture_output=True, text=True)
    if ap.returncode != 0:
        print(name, 'PATCH DOES NOT APPLY to current main:', ap.stderr[:200]); continue
    env = dict(os.environ); env['VERIF_REPO'] = WT; env['VERIF_BUILD'] = '/verif/.build/mut'
    if meta.get('units'):
        env['VERIF_UNITS'] = ','.join(meta['units'])
    if meta.get('check_results') and not os.environ.get('REDO'):
        print(name, 'already done'); continue
    props = [prop] + meta.get('also_check', [])
    res = {}
    for p in props:
        r = subprocess.run(['/verif/check', p], capture_output=True, text=True, env=env, cwd='/verif')
        lines = [l for l in r.stdout.split('\n') if l.startswith('VIOLATION') or l.startswith('FAILED OBLIGATION') or l.startswith('UNDECIDED')]
        res[p] = {'rc': r.returncode, 'lines': [l[:300] for l in lines[:6]]}
        if env.get('VERIF_ENGINES') == 'V':
            res[p]['note'] = 'Verus units of the property only (Kani units skipped for this run)'
        print(name, p, 'rc=%d' % r.returncode, (lines[0][:160] if lines else ''), flush=True)
    meta['check_results'] = res
    meta['detected'] = any(v['rc'] == 1 for v in res.values())
    json.dump(meta, open(d + 'meta.json', 'w'), indent=1)
subprocess.run(['git', '-C', WT, 'checkout', '-q', '--', '.'], check=True)
