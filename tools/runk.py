#!/usr/bin/env python3
"""dev helper: run one Kani unit and print per-harness verdict/time"""
import sys, os, json
HERE = os.path.dirname(os.path.dirname(os.path.abspath(__file__)))
sys.path[:0] = [os.path.join(HERE, 'lib'), HERE]
import kunit, props as P
unit = sys.argv[1]
tier = sys.argv[2] if len(sys.argv) > 2 else 'quick'
hs = P.KUNITS.get(unit) or P.WITNESS.get(unit)
r = kunit.check_unit(unit, hs, tier=tier, jobs=int(os.environ.get('JOBS', '8')), do_playback=('PLAYBACK' in os.environ))
print(unit, r['status'], 'obl', r['obligations'], r['discharged'], 'bounded', r['bounded_obligations'], r['bounded_discharged'], 'wall %.0fs' % r['wall_s'])
for h in r['harnesses']:
    print('  %-70s %-9s %6.1fs checks=%s' % (h['harness'].split('::')[-1], h.get('verdict'), h.get('duration_s', 0), h.get('checks')))
for n in r['notes']:
    print('  NOTE', n[:400])
for f in r['failures']:
    print('  FAIL', f['obligation'][:300])
