#!/usr/bin/env python3
"""one-off: transcribe the RFC 6330 tables from the PINNED tree (git object, not the working tree) into
/verif/spec/rfc_tables.rs.  The RFC text is not available offline; the pin is a stated assumption."""
import subprocess, re, sys
PIN = '0c30b9e9febad2570d2861c571c828b8e6d0562f'
def show(f):
    return subprocess.run(['git', '-C', '/repo', 'show', '%s:%s' % (PIN, f)], capture_output=True, text=True, check=True).stdout
def grab(src, name):
    m = re.search(r'(?:pub )?(?:const|static) ' + name + r': ([^=]+)= (\[.*?\]);', src, flags=re.S)
    return m.group(1).strip(), m.group(2)
out = ['// PINNED transcription of the RFC 6330 tables (sections 5.5, 5.6, 5.7.3, 5.3.5.2), taken from the pinned tree',
       '// %s by /verif/tools/pin_tables.py. Never regenerated at check time.' % PIN, '#![allow(dead_code)]', '#[rustfmt::skip]', 'mod t {']
rng = show('src/rng.rs'); sc = show('src/systematic_constants.rs'); oc = show('src/octet.rs'); base = show('src/base.rs')
for n in ('V0', 'V1', 'V2', 'V3'):
    ty, val = grab(rng, n); out.append('pub const PIN_%s: %s = %s;' % (n, ty, val))
ty, val = grab(sc, 'SYSTEMATIC_INDICES_AND_PARAMETERS'); out.append('pub const PIN_TABLE2: %s = %s;' % (ty, val))
ty, val = grab(sc, 'P1_TABLE'); out.append('pub const PIN_P1: %s = %s;' % (ty, val))
ty, val = grab(oc, 'OCT_EXP'); out.append('pub const PIN_OCT_EXP: %s = %s;' % (ty, val))
ty, val = grab(oc, 'OCT_LOG'); out.append('pub const PIN_OCT_LOG: %s = %s;' % (ty, val))
m = re.search(r'let f: \[u32; 31\] = (\[.*?\]);', base, flags=re.S)
out.append('pub const PIN_DEG: [u32; 31] = %s;' % m.group(1))
out.append('}'); out.append('pub use t::*;')
open('/verif/spec/rfc_tables.rs', 'w').write('\n'.join(out) + '\n')
