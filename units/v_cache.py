"""V-CACHE (C17): the shared encoding-plan cache, by lock invariant (rule L1: Owicki-Gries mutex invariant)."""
from vunit import VUnit
import common

SPEC = r'''
verus! {
broadcast use vstd::std_specs::hash::group_hash_axioms;
global size_of usize == 8;

// result of the (deterministic) plan generation for k source symbols; see trusted base
pub uninterp spec fn spec_ops(k: int) -> Seq<SymbolOps>;
pub open spec fn is_plan_for(p: SourceBlockEncodingPlan, k: u16) -> bool {
    p.source_symbol_count == k && p.operations@ == spec_ops(k as int)
}
// LOCK INVARIANT: holds whenever the mutex is free; every critical section may assume it at acquisition and
// must re-establish it before every exit.  Mutual exclusion then gives it under every interleaving.
pub open spec fn cache_inv(c: SourceBlockEncodingPlanCache) -> bool {
    &&& c.plans@.dom().finite()
    &&& c.plans@.len() <= SOURCE_BLOCK_ENCODING_PLAN_CACHE_CAPACITY          // never more than the fixed capacity
    &&& c.insertion_order@.no_duplicates()
    &&& c.insertion_order@.to_set() == c.plans@.dom()                        // FIFO of keys and map stay in bijection
    &&& forall |k: u16| c.plans@.dom().contains(k) ==> is_plan_for(*(#[trigger] c.plans@[k]), k)   // a plan is only stored under its own symbol count
}
#[verifier::external_body]
fn verif_acquire() -> (g: SourceBlockEncodingPlanCache)
    ensures cache_inv(g),
{ unimplemented!() }
fn verif_release(g: &SourceBlockEncodingPlanCache)
    requires cache_inv(*g),
{ }
pub proof fn lemma_evict(order: Seq<u16>, dom: Set<u16>)
    requires order.no_duplicates(), order.to_set() == dom, order.len() > 0,
    ensures order.subrange(1, order.len() as int).no_duplicates(),
            order.subrange(1, order.len() as int).to_set() == dom.remove(order[0]),
            dom.contains(order[0]),
{
    let rest = order.subrange(1, order.len() as int);
    assert(order.to_set().contains(order[0]));
    assert forall |x: u16| rest.to_set().contains(x) <==> dom.remove(order[0]).contains(x) by {
        if rest.to_set().contains(x) {
            let i = choose |i: int| 0 <= i < rest.len() && rest[i] == x;
            assert(order[i + 1] == x);
            assert(order.to_set().contains(x));
            assert(x != order[0]);
        }
        if dom.remove(order[0]).contains(x) {
            assert(order.to_set().contains(x));
            let i = choose |i: int| 0 <= i < order.len() && order[i] == x;
            assert(i != 0);
            assert(rest[i - 1] == x);
        }
    }
    assert(rest.to_set() =~= dom.remove(order[0]));
}
pub proof fn lemma_push(order: Seq<u16>, dom: Set<u16>, k: u16)
    requires order.no_duplicates(), order.to_set() == dom, !dom.contains(k),
    ensures order.push(k).no_duplicates(), order.push(k).to_set() == dom.insert(k),
{
    let o2 = order.push(k);
    assert forall |i: int, j: int| 0 <= i < o2.len() && 0 <= j < o2.len() && i != j implies o2[i] != o2[j] by {
        if i < order.len() { assert(order.to_set().contains(order[i])); }
        if j < order.len() { assert(order.to_set().contains(order[j])); }
    }
    assert forall |x: u16| o2.to_set().contains(x) <==> dom.insert(k).contains(x) by {
        if o2.to_set().contains(x) {
            let i = choose |i: int| 0 <= i < o2.len() && o2[i] == x;
            if i < order.len() { assert(order.to_set().contains(order[i])); }
        }
        if dom.insert(k).contains(x) {
            if x == k { assert(o2[order.len() as int] == k); }
            else { assert(order.to_set().contains(x)); let i = choose |i: int| 0 <= i < order.len() && order[i] == x; assert(o2[i] == x); }
        }
    }
    assert(o2.to_set() =~= dom.insert(k));
}
pub proof fn lemma_order_len(c: SourceBlockEncodingPlanCache)
    requires cache_inv(c),
    ensures c.insertion_order@.len() == c.plans@.len(),
{
    c.insertion_order@.unique_seq_to_set();
}
} // verus!
'''


def build():
    u = VUnit('V-CACHE')
    u.raw(common.PRELUDE + '\nuse std::collections::{HashMap, VecDeque};\nuse std::sync::Arc;\n')
    u.raw('verus! {')
    u.raw('pub struct Octet { pub value: u8 }\n', label='Octet (field only)')
    u.struct('src/operation_vector.rs', 'SymbolOps', kind='enum')
    u.struct('src/encoder.rs', 'SourceBlockEncodingPlan')
    u.const('src/encoder.rs', 'SOURCE_BLOCK_ENCODING_PLAN_CACHE_CAPACITY')
    u.struct('src/encoder.rs', 'SourceBlockEncodingPlanCache')
    u.raw('} // verus!')
    u.raw(SPEC)
    u.raw('verus! {')
    u.raw('impl SourceBlockEncodingPlan {')
    u.fn('src/encoder.rs', 'generate', impl='impl SourceBlockEncodingPlan', ret='r', external_body=True,
         ensures=['is_plan_for(r, symbol_count)'])
    u.raw('}')
    u.trust('SourceBlockEncodingPlan::generate(k) is deterministic: a function of k alone (it reads no global state; its body solves a fixed matrix for K\'(k)) and stores k as source_symbol_count (src/encoder.rs:186-193, read off the body)')
    u.trust('std::sync::Mutex gives mutual exclusion and OnceLock initialises once (rule L1: lock() modelled as acquiring an arbitrary cache state satisfying cache_inv; every exit of the guard scope must re-establish it); '
            'the static CACHE is reachable only through source_block_encoding_plan_cache(), whose only caller is get_or_generate_source_block_encoding_plan (confinement scan)')
    u.trust('vstd specifications of HashMap<u16,_>::get/len/remove/insert, VecDeque::pop_front/push_back, Arc::new/clone')
    u.fn('src/encoder.rs', 'get_or_generate_source_block_encoding_plan', ret='r',
         rules=['D4'],
         resubst=[(r'let cache = source_block_encoding_plan_cache\(\);\s*', '', 'L1-drop-cache-handle'),
                  (r'let (mut )?guard = cache\s*\.lock\(\)\s*\.unwrap_or_else\(\|poisoned\| poisoned\.into_inner\(\)\);', r'let \1guard = verif_acquire();', 'L1-acquire'),
                  (r'return Arc::clone\(plan\);', '{ verif_release(&guard); return Arc::clone(plan); }', 'L1-release-at-return'),
                  (r'\n(\s*)\}\s*\n\s*let generated = ', r'\n\1 verif_release(&guard);\n\1}\n\n    let generated = ', 'L1-release-at-scope-end'),
                  (r'\n(\s*)(return )?generated;?\s*\n\}$', r'\n\1verif_release(&guard);\n\1generated\n}', 'L1-release-at-final-exit'),
                  ],
         ensures=['is_plan_for(*r, symbol_count)'],
         inserts=[('if guard.plans.len() >= SOURCE_BLOCK_ENCODING_PLAN_CACHE_CAPACITY', 'before',
                   'proof { lemma_order_len(guard); assert(!guard.plans@.dom().contains(symbol_count)); }\n let ghost g0 = guard;\n'
                   ' proof { if g0.insertion_order@.len() > 0 { lemma_evict(g0.insertion_order@, g0.plans@.dom()); } }'),
                  ('guard.insertion_order.push_back(symbol_count);', 'before',
                   'proof { assert(guard.insertion_order@.no_duplicates() && guard.insertion_order@.to_set() == guard.plans@.dom() && guard.plans@.len() <= 63 || '
                   ' (guard.insertion_order@ == g0.insertion_order@ && guard.plans@ == g0.plans@ && g0.plans@.len() < 64));'
                   ' assert(!guard.plans@.dom().contains(symbol_count));'
                   ' lemma_push(guard.insertion_order@, guard.plans@.dom(), symbol_count); }'),
                  ])
    u.raw('} // verus!')
    return u
