"""V-ENC (C18, C04): SourceBlockEncoder::repair_packets addressing for all (K, start, n); with_encoding_plan count check."""
from vunit import VUnit
import common

SPEC = r'''
verus! {
global size_of usize == 8;

// ---- uninterpreted results of the functions left external_body (their definitional correctness is C15/C04, K-TAB/K-RNG/K-ENCIDX)
pub uninterp spec fn kprime_of(k: int) -> int;          // extended_source_block_symbols
pub uninterp spec fn w_of(k: int) -> int;               // num_lt_symbols
pub uninterp spec fn j_of(k: int) -> int;               // systematic_index
pub uninterp spec fn p1_of(k: int) -> int;              // calculate_p1
pub uninterp spec fn tuple_of(isi: int, w: int, j: int, p1: int) -> (u32, u32, u32, u32, u32, u32);   // Tuple[K', X]
pub uninterp spec fn enc_of(k: int, c: SymbolSlab, t: (u32, u32, u32, u32, u32, u32)) -> Seq<u8>;     // Enc[K', C, tuple]

pub open spec fn enc_wf(e: SourceBlockEncoder) -> bool {
    e.source_symbols@.len() <= 56403
}
// the repair packet with repair index r (ESI = K + r, ISI = K' + r): a function of the encoder and r only
pub open spec fn repair_packet_spec(e: SourceBlockEncoder, r: int) -> (PayloadId, Seq<u8>) {
    let k = e.source_symbols@.len() as int;
    (PayloadId { source_block_number: e.source_block_id, encoding_symbol_id: (k + r) as u32 },
     enc_of(k, e.intermediate_symbols, tuple_of(kprime_of(k) + r, w_of(k), j_of(k), p1_of(k))))
}
pub open spec fn packet_is(p: EncodingPacket, s: (PayloadId, Seq<u8>)) -> bool {
    p.payload_id == s.0 && p.data@ == s.1
}
// C18 corollaries of the contract of repair_packets (window == singles, overlapping windows agree, IDs distinct, all IDs producible)
pub proof fn lemma_fountain(e: SourceBlockEncoder, s1: int, i1: int, s2: int, i2: int)
    requires enc_wf(e), 0 <= s1, 0 <= i1, 0 <= s2, 0 <= i2, s1 + i1 == s2 + i2,
    ensures repair_packet_spec(e, s1 + i1) == repair_packet_spec(e, s2 + i2),
{
}
pub proof fn lemma_ids_distinct(e: SourceBlockEncoder, r1: int, r2: int)
    requires enc_wf(e), 0 <= r1 < r2, e.source_symbols@.len() + r2 < 16777216,
    ensures repair_packet_spec(e, r1).0 != repair_packet_spec(e, r2).0,
{
}
pub proof fn lemma_every_esi_producible(e: SourceBlockEncoder, esi: int)
    requires enc_wf(e), e.source_symbols@.len() <= esi < 16777216,
    ensures ({ let r = esi - e.source_symbols@.len(); r >= 0 && e.source_symbols@.len() + r + 1 <= 16777216
               && repair_packet_spec(e, r).0.encoding_symbol_id == esi }),
{
}
} // verus!
'''


def base_types(u):
    u.struct('src/base.rs', 'PayloadId')
    u.raw('impl PayloadId {')
    u.fn('src/base.rs', 'new', impl='impl PayloadId', ret='r', rules=['A1'],
         requires=['encoding_symbol_id < 16777216'],
         ensures=['r.source_block_number == source_block_number', 'r.encoding_symbol_id == encoding_symbol_id'])
    u.fn('src/base.rs', 'source_block_number', impl='impl PayloadId', ret='r', ensures=['r == self.source_block_number'])
    u.fn('src/base.rs', 'encoding_symbol_id', impl='impl PayloadId', ret='r', ensures=['r == self.encoding_symbol_id'])
    u.raw('}')
    u.struct('src/base.rs', 'EncodingPacket')
    u.raw('impl EncodingPacket {')
    u.fn('src/base.rs', 'new', impl='impl EncodingPacket', ret='r', ensures=['r.payload_id == payload_id', 'r.data == data'])
    u.raw('}')
    u.struct('src/symbol.rs', 'Symbol')


def build():
    u = VUnit('V-ENC')
    u.raw(common.PRELUDE)
    u.raw('verus! {')
    base_types(u)
    u.raw('impl Symbol {')
    u.fn('src/symbol.rs', 'as_bytes', impl='impl Symbol', ret='r', ensures=['r@ == self.value@'])
    u.raw('}')
    u.struct('src/symbol_slab.rs', 'SymbolSlab')
    u.raw('impl SymbolSlab {')
    u.fn('src/symbol_slab.rs', 'symbol_size', impl='impl SymbolSlab', ret='r', ensures=['r == self.symbol_size'])
    u.raw('}')
    u.struct('src/encoder.rs', 'SourceBlockEncoder')
    u.raw('} // verus!')
    u.raw(SPEC)
    u.raw('verus! {')
    for name, sp in [('extended_source_block_symbols', 'kprime_of'), ('num_lt_symbols', 'w_of'), ('systematic_index', 'j_of'), ('calculate_p1', 'p1_of')]:
        extra = ['source_block_symbols as int <= r as int', 'r <= 56403'] if sp == 'kprime_of' else []
        u.fn('src/systematic_constants.rs', name, ret='r', external_body=True,
             requires=['source_block_symbols <= 56403'],
             ensures=['r as int == %s(source_block_symbols as int)' % sp] + extra)
    u.trust('contracts of extended_source_block_symbols/num_lt_symbols/systematic_index/calculate_p1 are discharged by K-TAB (Kani, complete), here assumed')
    u.fn('src/base.rs', 'intermediate_tuple', ret='r', external_body=True,
         ensures=['r == tuple_of(internal_symbol_id as int, lt_symbols as int, systematic_index as int, p1 as int)'])
    u.trust('intermediate_tuple is a deterministic function of its arguments (no global state): read off its body; its value is decided by K-RNG')
    u.fn('src/encoder.rs', 'enc_into', ret='r', external_body=True,
         requires=['dest@.len() == intermediate_symbols.symbol_size'],
         ensures=['final(dest)@ == enc_of(source_block_symbols as int, *intermediate_symbols, source_tuple)', 'final(dest)@.len() == old(dest)@.len()'])
    u.trust('enc_into writes Enc[K\', C, tuple] (a function of K, the slab and the tuple) into dest: its index sequence is decided by K-ENCIDX / V-SLAB, here assumed')
    u.raw('''pub assume_specification<T: Clone>[ <[T]>::to_vec ](s: &[T]) -> (r: Vec<T>)
    ensures r@.len() == s@.len(), forall |i: int| 0 <= i < s@.len() ==> cloned::<T>(#[trigger] s@[i], r@[i]);
''', label='rule S1: <[u8]>::to_vec copies the slice')
    u.trust('assume_specification <[u8]>::to_vec: the returned vector holds the same bytes (std documented behaviour)')
    u.raw('impl SourceBlockEncoder {')
    u.fn('src/encoder.rs', 'repair_packets', impl='impl SourceBlockEncoder', ret='result',
         requires=['enc_wf(*self)', 'self.source_symbols@.len() + start_repair_symbol_id as int + packets as int <= 16777216'],
         ensures=['result@.len() == packets as int',
                  'forall |i: int| 0 <= i < packets as int ==> packet_is(#[trigger] result@[i], repair_packet_spec(*self, start_repair_symbol_id as int + i))'],
         opt_inserts=[('let mut result = vec![];', 'replace', 'let mut result: Vec<EncodingPacket> = vec![];')],
         loops={0: 'invariant enc_wf(*self), self.source_symbols@.len() + start_repair_symbol_id as int + packets as int <= 16777216,'
                   ' start_encoding_symbol_id as int == start_repair_symbol_id as int + kprime_of(self.source_symbols@.len() as int),'
                   ' self.source_symbols@.len() as int <= kprime_of(self.source_symbols@.len() as int) <= 56403,'
                   ' lt_symbols as int == w_of(self.source_symbols@.len() as int), sys_index as int == j_of(self.source_symbols@.len() as int), p1 as int == p1_of(self.source_symbols@.len() as int),'
                   ' symbol_size == self.intermediate_symbols.symbol_size,'
                   ' result@.len() == i as int,'
                   ' forall |k: int| 0 <= k < i as int ==> packet_is(#[trigger] result@[k], repair_packet_spec(*self, start_repair_symbol_id as int + k)),'})
    u.fn('src/encoder.rs', 'source_packets', impl='impl SourceBlockEncoder', ret='r', rules=['D9'],
         requires=['enc_wf(*self)'],
         ensures=['r@.len() == self.source_symbols@.len()',
                  'forall |i: int| 0 <= i < r@.len() ==> packet_is(#[trigger] r@[i], source_packet_spec(*self, i))'],
         opt_subst=[('let mut verif_out = Vec::new();', 'let mut verif_out: Vec<EncodingPacket> = Vec::new();', 'type-annotation')],
         loops={0: {'spec': 'invariant enc_wf(*self), verif_hi == self.source_symbols@.len(), verif_k <= verif_hi, verif_out@.len() == verif_k as int,'
                            ' forall |j: int| 0 <= j < verif_k as int ==> packet_is(#[trigger] verif_out@[j], source_packet_spec(*self, j)), decreases verif_hi - verif_k,',
                    'body_top': 'let ghost verif_prev = verif_out@;',
                    'body_bottom': 'proof { let j = verif_k as int - 1; assert(verif_out@[j].data@ =~= self.source_symbols@[j].value@);'
                                   ' assert forall |q: int| 0 <= q < j implies packet_is(#[trigger] verif_out@[q], source_packet_spec(*self, q)) by { assert(verif_out@[q] == verif_prev[q]); } }'}})
    u.raw('}')
    # ---- the per-object packet list (C18): block by block in order, K source packets then the requested repair packets
    u.struct('src/base.rs', 'ObjectTransmissionInformation')
    u.struct('src/encoder.rs', 'Encoder')
    u.raw("""
pub open spec fn source_packet_spec(e: SourceBlockEncoder, i: int) -> (PayloadId, Seq<u8>) {
    (PayloadId { source_block_number: e.source_block_id, encoding_symbol_id: i as u32 }, e.source_symbols@[i].value@)
}
pub open spec fn block_packets_ok(list: Seq<EncodingPacket>, at: int, e: SourceBlockEncoder, r: int) -> bool {
    let k = e.source_symbols@.len() as int;
    &&& forall |i: int| 0 <= i < k ==> packet_is(#[trigger] list[at + i], source_packet_spec(e, i))
    &&& forall |i: int| 0 <= i < r ==> packet_is(#[trigger] list[at + k + i], repair_packet_spec(e, i))
}
// offset of block b's packets in the list
pub open spec fn block_at(blocks: Seq<SourceBlockEncoder>, r: int, b: nat) -> int
    decreases b,
{ if b == 0 { 0 } else { block_at(blocks, r, (b - 1) as nat) + blocks[b - 1].source_symbols@.len() + r } }
#[verifier::external_body]
fn verif_extend_packets(v: &mut Vec<EncodingPacket>, b: Vec<EncodingPacket>) ensures final(v)@ == old(v)@ + b@ { unimplemented!() }
""", label='packet list spec')
    u.trust('Vec::extend(Vec<EncodingPacket>) appends the packets in order (rule S2 model function)')
    u.raw('impl Encoder {')
    u.fn('src/encoder.rs', 'get_encoded_packets', impl='impl Encoder', ret='packets',
         requires=['forall |b: int| 0 <= b < self.blocks@.len() ==> enc_wf(#[trigger] self.blocks@[b]) && self.blocks@[b].source_symbols@.len() + repair_packets_per_block as int <= 16777216'],
         ensures=['packets@.len() == block_at(self.blocks@, repair_packets_per_block as int, self.blocks@.len())',
                  'forall |b: int| 0 <= b < self.blocks@.len() ==> block_packets_ok(packets@, block_at(self.blocks@, repair_packets_per_block as int, b as nat), #[trigger] self.blocks@[b], repair_packets_per_block as int)'],
         opt_subst=[('packets.extend(encoder.source_packets());', 'verif_extend_packets(&mut packets, encoder.source_packets());', 'S2-extend-vec'),
                    ('packets.extend(encoder.repair_packets(0, repair_packets_per_block));', 'verif_extend_packets(&mut packets, encoder.repair_packets(0, repair_packets_per_block));', 'S2-extend-vec'),
                    ('let mut packets = vec![];', 'let mut packets: Vec<EncodingPacket> = vec![];', 'type-annotation')],
         resubst=[(r'for encoder in self\.blocks\.iter\(\) \{', 'for encoder in verif_it: self.blocks.iter() {', 'name-iterator')],
         loops={0: {'spec': ('invariant forall |b: int| 0 <= b < self.blocks@.len() ==> enc_wf(#[trigger] self.blocks@[b]) && self.blocks@[b].source_symbols@.len() + repair_packets_per_block as int <= 16777216,'
                             ' verif_it.index@ <= self.blocks@.len(), packets@.len() == block_at(self.blocks@, repair_packets_per_block as int, verif_it.index@ as nat),'
                             ' forall |b: int| 0 <= b < verif_it.index@ ==> block_packets_ok(packets@, block_at(self.blocks@, repair_packets_per_block as int, b as nat), #[trigger] self.blocks@[b], repair_packets_per_block as int),'),
                    'body_top': 'let ghost verif_prev = packets@; let ghost bi = verif_it.index@;',
                    'body_bottom': ('proof { let r = repair_packets_per_block as int; assert(self.blocks@[bi] == *encoder);'
                                    ' assert forall |b: int| 0 <= b < bi + 1 implies block_packets_ok(packets@, block_at(self.blocks@, r, b as nat), #[trigger] self.blocks@[b], r) by {'
                                    '   if b < bi { assert(block_packets_ok(verif_prev, block_at(self.blocks@, r, b as nat), self.blocks@[b], r)); lemma_block_at_mono(self.blocks@, r, b as nat, bi as nat);'
                                    '     let k = self.blocks@[b].source_symbols@.len() as int; let at = block_at(self.blocks@, r, b as nat);'
                                    '     assert forall |i: int| 0 <= i < k implies packet_is(#[trigger] packets@[at + i], source_packet_spec(self.blocks@[b], i)) by { assert(packets@[at + i] == verif_prev[at + i]); }'
                                    '     assert forall |i: int| 0 <= i < r implies packet_is(#[trigger] packets@[at + k + i], repair_packet_spec(self.blocks@[b], i)) by { assert(packets@[at + k + i] == verif_prev[at + k + i]); } } } }')}})
    u.raw("""}
pub proof fn lemma_block_at_mono(blocks: Seq<SourceBlockEncoder>, r: int, a: nat, b: nat)
    requires a < b, b <= blocks.len(), r >= 0,
    ensures block_at(blocks, r, a) + blocks[a as int].source_symbols@.len() + r <= block_at(blocks, r, b), block_at(blocks, r, a) >= 0,
    decreases b,
{
    if a + 1 < b { lemma_block_at_mono(blocks, r, a, (b - 1) as nat); }
    lemma_block_at_nonneg(blocks, r, a);
}
pub proof fn lemma_block_at_nonneg(blocks: Seq<SourceBlockEncoder>, r: int, a: nat)
    requires a <= blocks.len(), r >= 0,
    ensures block_at(blocks, r, a) >= 0,
    decreases a,
{ if a > 0 { lemma_block_at_nonneg(blocks, r, (a - 1) as nat); } }
""", label='packet list lemmas')
    u.raw('} // verus!')
    return u

