"""V-SLAB (C09, C06, C12): SymbolSlab addressing, paired borrow, op interpreter, plan replay; all counts and symbol sizes."""
from vunit import VUnit
import common

SPEC = r'''
verus! {
global size_of usize == 8;
// GF(256) product modulo x^8+x^4+x^3+x^2+1 as 8 shift-and-xor steps: the same algorithm as the executable oracle /verif/spec/gf.rs,
// against which K-GF (Kani) proves Octet::mul, OCTET_MUL and the nibble tables for all operand pairs
pub open spec fn xtime(a: u8) -> u8 { if a & 0x80 != 0 { ((a << 1) ^ 0x1D) as u8 } else { (a << 1) as u8 } }
pub open spec fn sel(b: u8, k: u8, a: u8) -> u8 { if (b >> k) & 1 == 1 { a } else { 0u8 } }
pub open spec fn gf_mul(a: u8, b: u8) -> u8 {
    let a0 = a; let a1 = xtime(a0); let a2 = xtime(a1); let a3 = xtime(a2); let a4 = xtime(a3); let a5 = xtime(a4); let a6 = xtime(a5); let a7 = xtime(a6);
    sel(b, 0, a0) ^ sel(b, 1, a1) ^ sel(b, 2, a2) ^ sel(b, 3, a3) ^ sel(b, 4, a4) ^ sel(b, 5, a5) ^ sel(b, 6, a6) ^ sel(b, 7, a7)
}
proof fn lemma_sel_xor(b: u8, c: u8, k: u8, a: u8)
    requires k < 8,
    ensures sel(b ^ c, k, a) == sel(b, k, a) ^ sel(c, k, a),
{
    assert(((b ^ c) >> k) & 1 == ((b >> k) & 1) ^ ((c >> k) & 1)) by (bit_vector) requires k < 8;
    assert(((b >> k) & 1) == 0 || ((b >> k) & 1) == 1) by (bit_vector);
    assert(((c >> k) & 1) == 0 || ((c >> k) & 1) == 1) by (bit_vector);
    assert(a ^ a == 0) by (bit_vector);
    assert(a ^ 0 == a) by (bit_vector);
    assert(0u8 ^ a == a) by (bit_vector);
    assert(0u8 ^ 0u8 == 0u8) by (bit_vector);
    assert(1u8 ^ 1u8 == 0u8 && 1u8 ^ 0u8 == 1u8 && 0u8 ^ 1u8 == 1u8) by (bit_vector);
}
proof fn lemma_xor8(x0: u8, x1: u8, x2: u8, x3: u8, x4: u8, x5: u8, x6: u8, x7: u8, y0: u8, y1: u8, y2: u8, y3: u8, y4: u8, y5: u8, y6: u8, y7: u8)
    ensures (x0 ^ y0) ^ (x1 ^ y1) ^ (x2 ^ y2) ^ (x3 ^ y3) ^ (x4 ^ y4) ^ (x5 ^ y5) ^ (x6 ^ y6) ^ (x7 ^ y7)
         == (x0 ^ x1 ^ x2 ^ x3 ^ x4 ^ x5 ^ x6 ^ x7) ^ (y0 ^ y1 ^ y2 ^ y3 ^ y4 ^ y5 ^ y6 ^ y7),
{
    assert((x0 ^ y0) ^ (x1 ^ y1) ^ (x2 ^ y2) ^ (x3 ^ y3) ^ (x4 ^ y4) ^ (x5 ^ y5) ^ (x6 ^ y6) ^ (x7 ^ y7)
         == (x0 ^ x1 ^ x2 ^ x3 ^ x4 ^ x5 ^ x6 ^ x7) ^ (y0 ^ y1 ^ y2 ^ y3 ^ y4 ^ y5 ^ y6 ^ y7)) by (bit_vector);
}
// the field product distributes over addition (xor)
pub proof fn lemma_gf_distributive(a: u8, b: u8, c: u8)
    ensures gf_mul(a, b ^ c) == gf_mul(a, b) ^ gf_mul(a, c),
{
    let a0 = a; let a1 = xtime(a0); let a2 = xtime(a1); let a3 = xtime(a2); let a4 = xtime(a3); let a5 = xtime(a4); let a6 = xtime(a5); let a7 = xtime(a6);
    lemma_sel_xor(b, c, 0, a0); lemma_sel_xor(b, c, 1, a1); lemma_sel_xor(b, c, 2, a2); lemma_sel_xor(b, c, 3, a3);
    lemma_sel_xor(b, c, 4, a4); lemma_sel_xor(b, c, 5, a5); lemma_sel_xor(b, c, 6, a6); lemma_sel_xor(b, c, 7, a7);
    lemma_xor8(sel(b, 0, a0), sel(b, 1, a1), sel(b, 2, a2), sel(b, 3, a3), sel(b, 4, a4), sel(b, 5, a5), sel(b, 6, a6), sel(b, 7, a7),
               sel(c, 0, a0), sel(c, 1, a1), sel(c, 2, a2), sel(c, 3, a3), sel(c, 4, a4), sel(c, 5, a5), sel(c, 6, a6), sel(c, 7, a7));
}
pub open spec fn xor_seq(a: Seq<u8>, b: Seq<u8>) -> Seq<u8> { Seq::new(a.len(), |i: int| a[i] ^ b[i]) }
pub open spec fn mul_seq(a: Seq<u8>, c: u8) -> Seq<u8> { Seq::new(a.len(), |i: int| gf_mul(c, a[i])) }

pub open spec fn inj(m: Seq<usize>) -> bool { forall |i: int, j: int| 0 <= i < m.len() && 0 <= j < m.len() && i != j ==> m[i] != m[j] }
pub open spec fn map_ok(m: Seq<usize>, count: int) -> bool { m.len() == count && inj(m) && forall |i: int| 0 <= i < m.len() ==> (#[trigger] m[i] as int) < count }
pub open spec fn map_of(s: SymbolSlab) -> Option<Seq<usize>> { if s.mapping.is_some() { Some(s.mapping.unwrap()@) } else { None } }
pub open spec fn wf_of(data: Seq<u8>, count: int, ss: int, m: Option<Seq<usize>>) -> bool {
    &&& data.len() == count * ss && data.len() <= usize::MAX && count >= 0 && ss >= 0
    &&& (m.is_some() ==> map_ok(m.unwrap(), count))
}
pub open spec fn slab_wf(s: SymbolSlab) -> bool { wf_of(s.data@, s.count as int, s.symbol_size as int, map_of(s)) }
pub open spec fn phys_of(m: Option<Seq<usize>>, i: int) -> int { if m.is_some() { m.unwrap()[i] as int } else { i } }
pub open spec fn phys(s: SymbolSlab, i: int) -> int { phys_of(map_of(s), i) }
pub open spec fn chunk(d: Seq<u8>, p: int, ss: int) -> Seq<u8> { d.subrange(p * ss, p * ss + ss) }
// logical symbols of a slab given by its components
pub open spec fn view_of(data: Seq<u8>, count: int, ss: int, m: Option<Seq<usize>>) -> Seq<Seq<u8>> {
    Seq::new(count as nat, |i: int| chunk(data, phys_of(m, i), ss))
}
pub open spec fn sym(s: SymbolSlab, i: int) -> Seq<u8> { chunk(s.data@, phys(s, i), s.symbol_size as int) }
pub open spec fn view(s: SymbolSlab) -> Seq<Seq<u8>> { view_of(s.data@, s.count as int, s.symbol_size as int, map_of(s)) }
// data with the byte range [a, b) replaced
pub open spec fn splice3(d: Seq<u8>, a: int, b: int, nb: Seq<u8>) -> Seq<u8> { d.subrange(0, a) + nb + d.subrange(b, d.len() as int) }

pub proof fn lemma_range(count: int, ss: int, i: int)
    requires 0 <= i < count, ss >= 0,
    ensures 0 <= i * ss, i * ss + ss <= count * ss,
{
    assert(i * ss >= 0) by (nonlinear_arith) requires i >= 0, ss >= 0;
    assert(i * ss + ss <= count * ss) by (nonlinear_arith) requires i + 1 <= count, ss >= 0;
}
pub proof fn lemma_disjoint(ss: int, i: int, j: int)
    requires i != j, ss >= 0, i >= 0, j >= 0,
    ensures i * ss + ss <= j * ss || j * ss + ss <= i * ss,
{
    if i < j { assert(i * ss + ss <= j * ss) by (nonlinear_arith) requires i + 1 <= j, ss >= 0; }
    else { assert(j * ss + ss <= i * ss) by (nonlinear_arith) requires j + 1 <= i, ss >= 0; }
}
// writing the physical range of logical symbol d replaces exactly that logical symbol; every other symbol is unchanged (frame)
pub proof fn lemma_write_symbol(data: Seq<u8>, count: int, ss: int, m: Option<Seq<usize>>, d: int, nb: Seq<u8>)
    requires wf_of(data, count, ss, m), 0 <= d < count, nb.len() == ss,
    ensures ({ let p = phys_of(m, d); let nd = splice3(data, p * ss, p * ss + ss, nb);
               wf_of(nd, count, ss, m) && view_of(nd, count, ss, m) == view_of(data, count, ss, m).update(d, nb) }),
{
    let pd = phys_of(m, d);
    if m.is_some() { assert((m.unwrap()[d] as int) < count); }
    lemma_range(count, ss, pd);
    let nd = splice3(data, pd * ss, pd * ss + ss, nb);
    assert(nd.len() == data.len());
    assert forall |i: int| 0 <= i < count implies #[trigger] view_of(nd, count, ss, m)[i] == view_of(data, count, ss, m).update(d, nb)[i] by {
        let pi = phys_of(m, i);
        if m.is_some() { assert((m.unwrap()[i] as int) < count); }
        lemma_range(count, ss, pi);
        if i == d {
            assert(chunk(nd, pi, ss) =~= nb);
        } else {
            assert(pi != pd) by { if m.is_some() { assert(inj(m.unwrap())); } }
            lemma_disjoint(ss, pi, pd);
            assert(chunk(nd, pi, ss) =~= chunk(data, pi, ss));
        }
    }
    assert(view_of(nd, count, ss, m) =~= view_of(data, count, ss, m).update(d, nb));
}

// ---- the op list semantics over logical symbols (what a plan means)
pub open spec fn apply_op(v: Seq<Seq<u8>>, op: SymbolOps) -> Seq<Seq<u8>> {
    match op {
        SymbolOps::AddAssign { dest, src } => v.update(dest as int, xor_seq(v[dest as int], v[src as int])),
        SymbolOps::MulAssign { dest, scalar } => v.update(dest as int, mul_seq(v[dest as int], scalar.value)),
        SymbolOps::FMA { dest, src, scalar } => v.update(dest as int, xor_seq(v[dest as int], mul_seq(v[src as int], scalar.value))),
        SymbolOps::Reorder { order } => Seq::new(order@.len(), |i: int| v[order@[i] as int]),
    }
}
pub open spec fn apply_ops(v: Seq<Seq<u8>>, ops: Seq<SymbolOps>, n: nat) -> Seq<Seq<u8>>
    decreases n,
{ if n == 0 { v } else { apply_op(apply_ops(v, ops, (n - 1) as nat), ops[n - 1]) } }
pub open spec fn op_ok(s: SymbolSlab, op: SymbolOps) -> bool {
    match op {
        SymbolOps::AddAssign { dest, src } => dest < s.count && src < s.count && dest != src,
        SymbolOps::MulAssign { dest, scalar } => dest < s.count,
        SymbolOps::FMA { dest, src, scalar } => dest < s.count && src < s.count && dest != src,
        SymbolOps::Reorder { order } => s.mapping.is_none() && map_ok(order@, s.count as int),
    }
}

// ---- C09: every op acts on each byte column independently
pub open spec fn column(v: Seq<Seq<u8>>, j: int) -> Seq<Seq<u8>> { Seq::new(v.len(), |i: int| seq![v[i][j]]) }
pub open spec fn uniform(v: Seq<Seq<u8>>, ss: int) -> bool { forall |i: int| 0 <= i < v.len() ==> (#[trigger] v[i]).len() == ss }
pub open spec fn op_in_range(v: Seq<Seq<u8>>, op: SymbolOps) -> bool {
    match op {
        SymbolOps::AddAssign { dest, src } => dest < v.len() && src < v.len(),
        SymbolOps::MulAssign { dest, scalar } => dest < v.len(),
        SymbolOps::FMA { dest, src, scalar } => dest < v.len() && src < v.len(),
        SymbolOps::Reorder { order } => forall |i: int| 0 <= i < order@.len() ==> (#[trigger] order@[i] as int) < v.len(),
    }
}
pub proof fn lemma_column_independence(v: Seq<Seq<u8>>, op: SymbolOps, ss: int, j: int)
    requires uniform(v, ss), 0 <= j < ss, op_in_range(v, op),
    ensures column(apply_op(v, op), j) == apply_op(column(v, j), op), uniform(apply_op(v, op), ss),
{
    let l = column(apply_op(v, op), j);
    let r = apply_op(column(v, j), op);
    assert(l.len() == r.len());
    assert forall |i: int| 0 <= i < l.len() implies l[i] == r[i] by {
        match op {
            SymbolOps::AddAssign { dest, src } => { assert(l[i] =~= r[i]); }
            SymbolOps::MulAssign { dest, scalar } => { assert(l[i] =~= r[i]); }
            SymbolOps::FMA { dest, src, scalar } => { assert(l[i] =~= r[i]); }
            SymbolOps::Reorder { order } => { assert(l[i] =~= r[i]); }
        }
    }
    assert(l =~= r);
}
// C09: the packets for A xor B are the xor of the packets for A and for B: every op is additive over symbol-wise xor
pub open spec fn xor_view(a: Seq<Seq<u8>>, b: Seq<Seq<u8>>) -> Seq<Seq<u8>> { Seq::new(a.len(), |i: int| xor_seq(a[i], b[i])) }
pub proof fn lemma_xor_assoc4(a: u8, b: u8, c: u8, d: u8)
    ensures (a ^ b) ^ (c ^ d) == (a ^ c) ^ (b ^ d),
{ assert((a ^ b) ^ (c ^ d) == (a ^ c) ^ (b ^ d)) by (bit_vector); }
pub proof fn lemma_op_additive(v1: Seq<Seq<u8>>, v2: Seq<Seq<u8>>, op: SymbolOps, ss: int)
    requires uniform(v1, ss), uniform(v2, ss), v1.len() == v2.len(), op_in_range(v1, op),
    ensures apply_op(xor_view(v1, v2), op) == xor_view(apply_op(v1, op), apply_op(v2, op)),
            uniform(apply_op(v1, op), ss), uniform(apply_op(v2, op), ss), apply_op(v1, op).len() == apply_op(v2, op).len(),
{
    let l = apply_op(xor_view(v1, v2), op);
    let r = xor_view(apply_op(v1, op), apply_op(v2, op));
    assert(l.len() == r.len());
    assert forall |i: int| 0 <= i < l.len() implies l[i] == r[i] by {
        match op {
            SymbolOps::AddAssign { dest, src } => {
                if i == dest as int {
                    assert forall |j: int| 0 <= j < ss implies l[i][j] == r[i][j] by {
                        lemma_xor_assoc4(v1[dest as int][j], v2[dest as int][j], v1[src as int][j], v2[src as int][j]);
                    }
                }
                assert(l[i] =~= r[i]);
            }
            SymbolOps::MulAssign { dest, scalar } => {
                if i == dest as int {
                    assert forall |j: int| 0 <= j < ss implies l[i][j] == r[i][j] by {
                        lemma_gf_distributive(scalar.value, v1[dest as int][j], v2[dest as int][j]);
                    }
                }
                assert(l[i] =~= r[i]);
            }
            SymbolOps::FMA { dest, src, scalar } => {
                if i == dest as int {
                    assert forall |j: int| 0 <= j < ss implies l[i][j] == r[i][j] by {
                        lemma_gf_distributive(scalar.value, v1[src as int][j], v2[src as int][j]);
                        lemma_xor_assoc4(v1[dest as int][j], v2[dest as int][j], gf_mul(scalar.value, v1[src as int][j]), gf_mul(scalar.value, v2[src as int][j]));
                    }
                }
                assert(l[i] =~= r[i]);
            }
            SymbolOps::Reorder { order } => { assert(l[i] =~= r[i]); }
        }
    }
    assert(l =~= r);
}
} // verus!
'''

KERNELS = r'''
verus! {
// bulk kernels: element-wise contracts (discharged for every instruction-set path by K-KERN, bounded; assumed here)
#[verifier::external_body]
fn add_assign(octets: &mut [u8], other: &[u8])
    requires old(octets)@.len() == other@.len(),
    ensures final(octets)@ == xor_seq(old(octets)@, other@),
{ unimplemented!() }
#[verifier::external_body]
fn mulassign_scalar(octets: &mut [u8], scalar: &Octet)
    ensures final(octets)@ == mul_seq(old(octets)@, scalar.value),
{ unimplemented!() }
#[verifier::external_body]
fn fused_addassign_mul_scalar(octets: &mut [u8], other: &[u8], scalar: &Octet)
    requires old(octets)@.len() == other@.len(),
    ensures final(octets)@ == xor_seq(old(octets)@, mul_seq(other@, scalar.value)),
{ unimplemented!() }
// rule S3: `&mut vec[a..b]` (IndexMut<Range<usize>> for Vec): panics unless a <= b <= len, else the mutable sub-slice
#[verifier::external_body]
fn verif_vec_range_mut(v: &mut Vec<u8>, a: usize, b: usize) -> (r: &mut [u8])
    requires a <= b, b as int <= old(v)@.len(),
    ensures r@ == old(v)@.subrange(a as int, b as int), final(r)@.len() == r@.len(),
            final(v)@ == splice3(old(v)@, a as int, b as int, final(r)@),
{ unimplemented!() }
// rule A3: a panic never returns
#[verifier::external_body]
fn verif_panic<A>() -> (r: A)
    ensures false,
{ panic!() }
// rule U2: the two slice::from_raw_parts* calls of get_pair_mut. The REQUIRES is their safety condition.
#[verifier::external_body]
fn verif_two_ranges(data: &mut Vec<u8>, a: usize, n: usize, b: usize, m: usize) -> (r: (&mut [u8], &[u8]))
    requires a as int + n as int <= old(data)@.len(), b as int + m as int <= old(data)@.len(),
             a as int + n as int <= b as int || b as int + m as int <= a as int,
    ensures r.0@ == old(data)@.subrange(a as int, a as int + n as int), r.1@ == old(data)@.subrange(b as int, b as int + m as int),
            final(r.0)@.len() == n as int,
            final(data)@ == splice3(old(data)@, a as int, a as int + n as int, final(r.0)@),
{ unimplemented!() }
} // verus!
'''


# D vector / plan semantics (shared with V-SBENEW); lives inside a verus! block
ENC_SPEC = r'''
impl Symbol {
    #[verifier::external_body]
    pub fn as_bytes(&self) -> (r: &[u8]) ensures r@ == self.value@ { unimplemented!() }
}
pub uninterp spec fn kprime_of(k: int) -> int;
pub uninterp spec fn s_of(k: int) -> int;
pub uninterp spec fn h_of(k: int) -> int;
pub open spec fn l_of(k: int) -> int { kprime_of(k) + s_of(k) + h_of(k) }
pub open spec fn consts_ok(k: int) -> bool { k <= kprime_of(k) <= 56403 && 1 <= s_of(k) <= 907 && 1 <= h_of(k) <= 16 && l_of(k) < 65536 }
// the D vector of RFC 6330 5.3.3.4.2 for the encoder: S+H zero symbols, the K source symbols, K'-K zero padding symbols
pub open spec fn d_spec(src: Seq<Seq<u8>>, ss: int) -> Seq<Seq<u8>> {
    let k = src.len() as int;
    Seq::new(l_of(k) as nat, |r: int| if s_of(k) + h_of(k) <= r < s_of(k) + h_of(k) + k { src[r - s_of(k) - h_of(k)] } else { Seq::new(ss as nat, |j: int| 0u8) })
}
pub open spec fn sym_views(src: Seq<Symbol>) -> Seq<Seq<u8>> { Seq::new(src.len(), |i: int| src[i].value@) }
// a plan is executable on `count` symbols: indices in range, dest != src, and a Reorder only as the final op with a permutation
pub open spec fn plan_ok(ops: Seq<SymbolOps>, count: int) -> bool {
    forall |i: int| 0 <= i < ops.len() ==> match #[trigger] ops[i] {
        SymbolOps::AddAssign { dest, src } => (dest as int) < count && (src as int) < count && dest != src,
        SymbolOps::MulAssign { dest, scalar } => (dest as int) < count,
        SymbolOps::FMA { dest, src, scalar } => (dest as int) < count && (src as int) < count && dest != src,
        SymbolOps::Reorder { order } => i == ops.len() - 1 && map_ok(order@, count),
    }
}
pub open spec fn no_reorder_before(ops: Seq<SymbolOps>, n: int) -> bool {
    forall |i: int| 0 <= i < n ==> !(#[trigger] ops[i] is Reorder)
}
// C09: a plan acts on every byte column independently, so it is valid for every symbol size
pub proof fn lemma_plan_column_independence(v: Seq<Seq<u8>>, ops: Seq<SymbolOps>, n: nat, ss: int, j: int)
    requires uniform(v, ss), 0 <= j < ss, n <= ops.len(), plan_ok(ops, v.len() as int),
    ensures column(apply_ops(v, ops, n), j) == apply_ops(column(v, j), ops, n), uniform(apply_ops(v, ops, n), ss),
            apply_ops(v, ops, n).len() == v.len(),
    decreases n,
{
    if n > 0 {
        lemma_plan_column_independence(v, ops, (n - 1) as nat, ss, j);
        let prev = apply_ops(v, ops, (n - 1) as nat);
        let op = ops[n - 1];
        assert(op_in_range(prev, op)) by {
            match op {
                SymbolOps::Reorder { order } => { assert(map_ok(order@, v.len() as int)); }
                _ => { }
            }
        }
        lemma_column_independence(prev, op, ss, j);
        match op {
            SymbolOps::Reorder { order } => { assert(apply_op(prev, op).len() == v.len()); }
            _ => { }
        }
    }
}
'''


def build():
    u = VUnit('V-SLAB')
    u.raw(common.PRELUDE)
    u.raw(common.ARITH)
    u.raw(common.STD_SPECS)
    for t in common.STD_TRUST:
        u.trust(t)
    u.raw('verus! {')
    u.struct('src/octet.rs', 'Octet')
    u.struct('src/symbol_slab.rs', 'SymbolSlab')
    u.struct('src/operation_vector.rs', 'SymbolOps', kind='enum')
    u.raw('} // verus!')
    u.raw(SPEC)
    u.raw(KERNELS, label='kernel contracts + from_raw_parts primitive')
    u.trust('octets::add_assign / mulassign_scalar / fused_addassign_mul_scalar: element-wise contracts checked by K-KERN (bounded Kani on every x86-64 path); assumed here')
    u.trust('rule U2: slice::from_raw_parts{,_mut} on two sub-ranges of one Vec allocation are sound iff both ranges are in bounds and disjoint (their documented safety condition), which is the precondition proved at the call site')
    u.raw('verus! {')
    u.raw('impl SymbolSlab {')
    u.fn('src/symbol_slab.rs', 'with_zeros', impl='impl SymbolSlab', ret='r',
         requires=['count as int * symbol_size as int <= usize::MAX'],
         ensures=['slab_wf(r)', 'r.count == count', 'r.symbol_size == symbol_size', 'r.mapping.is_none()',
                  'forall |i: int| 0 <= i < count as int ==> #[trigger] view(r)[i] == Seq::new(symbol_size as nat, |j: int| 0u8)', 'view(r).len() == count as int'],
         inserts=[('SymbolSlab {', 'before', 'let verif_data: Vec<u8> = vec![0u8; count * symbol_size];\nproof { assert(count as int * symbol_size as int >= 0) by (nonlinear_arith) requires count >= 0, symbol_size >= 0; assert forall |i: int| 0 <= i < count as int implies #[trigger] chunk(verif_data@, i, symbol_size as int) =~= Seq::new(symbol_size as nat, |j: int| 0u8) by { lemma_range(count as int, symbol_size as int, i); } }')],
         subst=[('data: vec![0u8; count * symbol_size],', 'data: verif_data,', 'let-binding of the field initialiser')])
    u.fn('src/symbol_slab.rs', 'len', impl='impl SymbolSlab', ret='r', ensures=['r == self.count'])
    u.fn('src/symbol_slab.rs', 'symbol_size', impl='impl SymbolSlab', ret='r', ensures=['r == self.symbol_size'])
    u.fn('src/symbol_slab.rs', 'physical_index', impl='impl SymbolSlab', ret='r',
         requires=['slab_wf(*self)', '(i as int) < self.count'],
         ensures=['r as int == phys(*self, i as int)', 'r < self.count'],
         subst=[('|m| m[i]', '|m: &Vec<usize>| -> (verif_r: usize) requires (i as int) < m@.len(), ensures verif_r == m@[i as int], { m[i] }', 'closure-contract')])
    GETREQ = ['slab_wf(*self)', '(i as int) < self.count']
    u.fn('src/symbol_slab.rs', 'get', impl='impl SymbolSlab', ret='r',
         requires=GETREQ, ensures=['r@ == sym(*self, i as int)', 'r@ == view(*self)[i as int]', 'r@.len() == self.symbol_size'],
         inserts=[('let start = i * self.symbol_size;', 'before', 'proof { lemma_range(self.count as int, self.symbol_size as int, i as int); }')])
    u.fn('src/symbol_slab.rs', 'get_mut', impl='impl SymbolSlab', ret='r',
         requires=['slab_wf(*old(self))', '(i as int) < old(self).count'],
         ensures=['r@ == view(*old(self))[i as int]', 'final(r)@.len() == r@.len()', 'r@.len() == old(self).symbol_size',
                  'slab_wf(*final(self))', 'view(*final(self)) == view(*old(self)).update(i as int, final(r)@)',
                  'final(self).count == old(self).count && final(self).symbol_size == old(self).symbol_size && final(self).mapping == old(self).mapping'],
         subst=[('&mut self.data[start..start + self.symbol_size]', 'verif_vec_range_mut(&mut self.data, start, start + self.symbol_size)', 'S3-vec-range-mut')],
         inserts=[('let i = self.physical_index(i);', 'before', 'let ghost verif_l = i as int;'),
                  ('let start = i * self.symbol_size;', 'before',
                   'proof { lemma_range(self.count as int, self.symbol_size as int, i as int);'
                   ' assert forall |nb: Seq<u8>| nb.len() == self.symbol_size as int implies'
                   '   view_of(#[trigger] splice3(self.data@, i as int * self.symbol_size as int, i as int * self.symbol_size as int + self.symbol_size as int, nb), self.count as int, self.symbol_size as int, map_of(*self))'
                   '     == view(*self).update(verif_l, nb)'
                   '   && wf_of(splice3(self.data@, i as int * self.symbol_size as int, i as int * self.symbol_size as int + self.symbol_size as int, nb), self.count as int, self.symbol_size as int, map_of(*self))'
                   ' by { lemma_write_symbol(self.data@, self.count as int, self.symbol_size as int, map_of(*self), verif_l, nb); } }')])
    u.fn('src/symbol_slab.rs', 'get_pair_mut', impl='impl SymbolSlab', ret='r', rules=['U2', 'A1'],
         requires=['slab_wf(*old(self))', '(dest as int) < old(self).count', '(src as int) < old(self).count', 'dest != src'],
         inserts=[('let dest = self.physical_index(dest);', 'before', 'let ghost verif_ld = dest as int; let ghost verif_ls = src as int;'),
                  ('let ss = self.symbol_size;', 'before',
                   'proof { lemma_range(self.count as int, self.symbol_size as int, dest as int); lemma_range(self.count as int, self.symbol_size as int, src as int);'
                   ' lemma_disjoint(self.symbol_size as int, dest as int, src as int);'
                   ' assert forall |nb: Seq<u8>| nb.len() == self.symbol_size as int implies'
                   '   view_of(#[trigger] splice3(self.data@, dest as int * self.symbol_size as int, dest as int * self.symbol_size as int + self.symbol_size as int, nb), self.count as int, self.symbol_size as int, map_of(*self))'
                   '     == view(*self).update(verif_ld, nb)'
                   '   && wf_of(splice3(self.data@, dest as int * self.symbol_size as int, dest as int * self.symbol_size as int + self.symbol_size as int, nb), self.count as int, self.symbol_size as int, map_of(*self))'
                   ' by { lemma_write_symbol(self.data@, self.count as int, self.symbol_size as int, map_of(*self), verif_ld, nb); } }')],
         ensures=['r.0@ == view(*old(self))[dest as int]', 'r.1@ == view(*old(self))[src as int]', 'final(r.0)@.len() == r.0@.len()', 'r.0@.len() == old(self).symbol_size', 'r.1@.len() == old(self).symbol_size',
                  'slab_wf(*final(self))', 'view(*final(self)) == view(*old(self)).update(dest as int, final(r.0)@)',
                  'final(self).count == old(self).count && final(self).symbol_size == old(self).symbol_size && final(self).mapping == old(self).mapping'],
         )
    # C12, stronger form: get_pair_mut is memory safe for EVERY reorder mapping (set_reorder is a safe pub fn that stores any Vec):
    # its own asserts (rule A3: refusal by panic) must imply the safety condition of the two from_raw_parts calls.
    u.raw('''
    #[verifier::external_body]
    fn physical_index_any(&self, i: usize) -> (r: usize)
        ensures self.mapping.is_none() ==> r == i,
    { unimplemented!() }
''', label='physical_index with an arbitrary mapping: any result (an out-of-range look-up panics, which is safe)')
    u.fn('src/symbol_slab.rs', 'get_pair_mut', impl='impl SymbolSlab', ret='r', rules=['U2', 'A3'], rename='get_pair_mut_any_mapping',
         subst=[('self.physical_index(', 'self.physical_index_any(', 'arbitrary-mapping')],
         requires=['old(self).data@.len() == old(self).count as int * old(self).symbol_size as int', 'old(self).data@.len() <= usize::MAX'],
         ensures=['true'],
         inserts=[('let ss = self.symbol_size;', 'before',
                   'proof { lemma_range(self.count as int, self.symbol_size as int, dest as int); lemma_range(self.count as int, self.symbol_size as int, src as int);'
                   ' lemma_disjoint(self.symbol_size as int, dest as int, src as int); }')])
    OPREQ2 = ['slab_wf(*old(self))', '(dest as int) < old(self).count', '(src as int) < old(self).count', 'dest != src']
    FRAME = 'final(self).count == old(self).count && final(self).symbol_size == old(self).symbol_size && final(self).mapping == old(self).mapping'
    u.fn('src/symbol_slab.rs', 'add_assign', impl='impl SymbolSlab', ret='r', requires=OPREQ2,
         ensures=['slab_wf(*final(self))', FRAME,
                  'view(*final(self)) == view(*old(self)).update(dest as int, xor_seq(view(*old(self))[dest as int], view(*old(self))[src as int]))'])
    u.fn('src/symbol_slab.rs', 'mulassign_scalar', impl='impl SymbolSlab', ret='r',
         requires=['slab_wf(*old(self))', '(dest as int) < old(self).count'],
         ensures=['slab_wf(*final(self))', FRAME,
                  'view(*final(self)) == view(*old(self)).update(dest as int, mul_seq(view(*old(self))[dest as int], scalar.value))'])
    u.fn('src/symbol_slab.rs', 'fma', impl='impl SymbolSlab', ret='r', requires=OPREQ2,
         ensures=['slab_wf(*final(self))', FRAME,
                  'view(*final(self)) == view(*old(self)).update(dest as int, xor_seq(view(*old(self))[dest as int], mul_seq(view(*old(self))[src as int], scalar.value)))'])
    u.fn('src/symbol_slab.rs', 'set_reorder', impl='impl SymbolSlab', ret='r',
         requires=['slab_wf(*old(self))', 'old(self).mapping.is_none()', 'map_ok(order@, old(self).count as int)'],
         ensures=['slab_wf(*final(self))', 'final(self).count == old(self).count && final(self).symbol_size == old(self).symbol_size',
                  'view(*final(self)) == Seq::new(order@.len(), |i: int| view(*old(self))[order@[i] as int])'],
         append='proof { assert(view(*self) =~= Seq::new(order@.len(), |i: int| view(*old(self))[order@[i] as int])); }')
    u.raw('}')
    # the op interpreter
    u.fn('src/operation_vector.rs', 'perform_op', ret='r',
         requires=['slab_wf(*old(symbols))', 'op_ok(*old(symbols), *op)'],
         ensures=['slab_wf(*final(symbols))', 'final(symbols).count == old(symbols).count && final(symbols).symbol_size == old(symbols).symbol_size',
                  'view(*final(symbols)) == apply_op(view(*old(symbols)), *op)',
                  '(match *op { SymbolOps::Reorder { order } => true, _ => final(symbols).mapping == old(symbols).mapping })'])
    # ---------------- D vector and plan replay (src/encoder.rs)
    u.struct('src/symbol.rs', 'Symbol')
    u.raw(ENC_SPEC, label='D vector / plan semantics')
    for name, sp in [('num_intermediate_symbols', 'l_of'), ('num_ldpc_symbols', 's_of'), ('num_hdpc_symbols', 'h_of'), ('extended_source_block_symbols', 'kprime_of')]:
        u.fn('src/systematic_constants.rs', name, ret='r', external_body=True,
             requires=['source_block_symbols <= 56403'],
             ensures=['r as int == %s(source_block_symbols as int)' % sp, 'consts_ok(source_block_symbols as int)'])
    u.trust('table look-ups (num_intermediate_symbols, num_ldpc_symbols, num_hdpc_symbols, extended_source_block_symbols): contracts proved in V-TAB / K-TAB; assumed here')
    SRC_OK = ['source_block@.len() <= 56403', 'forall |i: int| 0 <= i < source_block@.len() ==> (#[trigger] source_block@[i]).value@.len() == symbol_size as int', 'symbol_size <= 65535']
    u.fn('src/encoder.rs', 'create_d', ret='D', rules=['D1'],
         requires=SRC_OK,
         ensures=['slab_wf(D)', 'D.mapping.is_none()', 'D.symbol_size == symbol_size', 'D.count as int == l_of(source_block@.len() as int)',
                  'view(D) == d_spec(sym_views(source_block@), symbol_size as int)'],
         inserts=[('let mut D = SymbolSlab::with_zeros', 'before',
                   'proof { assert(L as int * symbol_size as int <= 65536 * 65535) by (nonlinear_arith) requires 0 <= L as int <= 65536, 0 <= symbol_size as int <= 65535; }')],
         loops={0: {'spec': 'invariant source_block@.len() <= 56403, forall |k: int| 0 <= k < source_block@.len() ==> (#[trigger] source_block@[k]).value@.len() == symbol_size as int,'
                            ' consts_ok(source_block@.len() as int), L as int == l_of(source_block@.len() as int), S as int == s_of(source_block@.len() as int), H as int == h_of(source_block@.len() as int),'
                            ' slab_wf(D), D.mapping.is_none(), D.symbol_size == symbol_size, D.count == L as usize, view(D).len() == L as int,'
                            ' forall |r: int| 0 <= r < L as int ==> #[trigger] view(D)[r] == (if (S as int + H as int <= r && r < S as int + H as int + (i as int)) { source_block@[r - S as int - H as int].value@ } else { Seq::new(symbol_size as nat, |j: int| 0u8) }),'}})
    u.fn('src/encoder.rs', 'gen_intermediate_symbols_with_plan', ret='r', rules=['D7'],
         resubst=[(r'for op in operation_vector\.iter\(\) \{', 'for op in verif_it: operation_vector.iter() {', 'name-iterator')],
         requires=SRC_OK + ['plan_ok(operation_vector@, l_of(source_block@.len() as int))'],
         ensures=['slab_wf(r)', 'r.symbol_size == symbol_size',
                  # plan replay == folding the op semantics over the D vector (C06), for every symbol size (C09)
                  'view(r) == apply_ops(d_spec(sym_views(source_block@), symbol_size as int), operation_vector@, operation_vector@.len())'],
         loops={0: {'spec': 'invariant slab_wf(D), D.symbol_size == symbol_size, D.count as int == l_of(source_block@.len() as int), plan_ok(operation_vector@, l_of(source_block@.len() as int)),'
                            ' (no_reorder_before(operation_vector@, verif_it.index@) ==> D.mapping.is_none()), verif_it.index@ <= operation_vector@.len(),'
                            ' no_reorder_before(operation_vector@, verif_it.index@) || verif_it.index@ == operation_vector@.len(),'
                            ' view(D) == apply_ops(d_spec(sym_views(source_block@), symbol_size as int), operation_vector@, verif_it.index@ as nat),',
                    'body_top': 'proof { assert(op_ok(D, *op)) by { let i = verif_it.index@; assert(operation_vector@[i] == *op); } }'}})
    u.raw('} // verus!')
    return u

