"""V-ENCIDX (C04, C01): constraint_matrix::enc_indices calls its callback on exactly the RFC 6330 5.3.5.3 index sequence, in order,
for ALL tuples and all (W, P, P1) -- unbounded companion of the Kani unit K-ENCIDX (which also decides termination of the P1 walk).
Rule F1: the FnMut callback parameter is replaced by a trace vector and every call `f(E);` by `verif_trace.push(E);`, so the contract
speaks about the sequence of callback arguments (partial correctness)."""
from vunit import VUnit
import common
import v_slab, v_encinto

SPEC = r'''
verus! {
pub open spec fn trace_is(t: Seq<usize>, idx: Seq<int>) -> bool { t.len() == idx.len() && forall |q: int| 0 <= q < idx.len() ==> #[trigger] t[q] as int == idx[q] }
} // verus!
'''


def build():
    u = VUnit('V-ENCIDX')
    u.raw(common.PRELUDE)
    u.raw(common.ARITH)
    u.raw('verus! {')
    u.struct('src/octet.rs', 'Octet')
    u.struct('src/symbol_slab.rs', 'SymbolSlab')
    u.struct('src/operation_vector.rs', 'SymbolOps', kind='enum')
    u.raw('} // verus!')
    u.raw(v_slab.SPEC)
    u.raw(v_encinto.SPEC)
    u.raw(SPEC)
    u.trust('rule F1: `f: impl FnMut(usize)` replaced by a trace vector, `f(E);` by `verif_trace.push(E);` -- the contract is about the sequence of callback arguments; '
            'a caller\'s closure then sees exactly that sequence (enc_indices does nothing else with f)')
    u.raw('verus! {')
    COMMON = ('1 <= p && p <= p1, (w as int) + (p1 as int) < 0x8000_0000, w >= 1,'
              ' 1 <= a && a < w, 1 <= a1 && a1 < p1, 1 <= d, d1 == 2 || d1 == 3, b0 < w as int, b10 < p1 as int, 0 <= b0, 0 <= b10,')
    TR = 'trace_is(verif_trace@, idx)'
    PUSH = lambda x: 'assert(trace_is(verif_trace@, idx)) by { assert forall |q: int| 0 <= q < idx.len() implies #[trigger] verif_trace@[q] as int == idx[q] by { if q < oi.len() { assert(idx[q] == oi[q]); } } }'
    loops = v_encinto.walk_loops(COMMON, TR, TR, PUSH)
    loops[0]['before'] = ('let ghost b0 = b as int; let ghost b10 = b1 as int; proof { lemma_orbit_zero(b0, a as int, w as int); lemma_orbit_zero(b10, a1 as int, p1 as int); }\n'
                          'let ghost mut idx: Seq<int> = seq![b0]; let ghost mut ks: Seq<int> = Seq::empty(); let ghost mut gk: int = 0;')
    u.fn('src/constraint_matrix.rs', 'enc_indices', ret='r', rules=['A1'],
         attrs='#[verifier::exec_allows_no_decreases_clause]', isolate_loops=True,
         sig_subst=[('<F: FnMut(usize)>', ''), ('mut f: F,', 'verif_trace: &mut Vec<usize>,')],
         resubst=[(r'\bf\(([^;]*)\);', r'verif_trace.push(\1);', 'F1-callback-to-trace'),
                  (r'for _ in ', lambda m, names=iter(['verif_j', 'verif_s', 'verif_x2', 'verif_x3']): 'for %s in ' % next(names), 'name-loop-var')],
         subst=[('let w = lt_symbols;', 'let w = lt_symbols; let ghost verif_t0 = verif_trace@;', 'ghost-entry-state')],
         requires=['old(verif_trace)@.len() == 0', '1 <= pi_symbols && pi_symbols <= p1', '(lt_symbols as int) + (p1 as int) < 0x8000_0000', 'lt_symbols >= 1',
                   '1 <= source_tuple.0', '1 <= source_tuple.1 && source_tuple.1 < lt_symbols', 'source_tuple.2 < lt_symbols',
                   'source_tuple.3 == 2 || source_tuple.3 == 3', '1 <= source_tuple.4 && source_tuple.4 < p1', 'source_tuple.5 < p1'],
         ensures=['exists |idx: Seq<int>, ks: Seq<int>| #[trigger] enc_idx_ok(idx, ks, source_tuple, lt_symbols as int, pi_symbols as int, p1 as int) && trace_is(final(verif_trace)@, idx)'],
         loops=loops,
         append='proof { ' + v_encinto.final_steps('lt_symbols as int', 'pi_symbols as int', 'p1 as int') + ' }')
    u.raw('} // verus!')
    return u
