"""V-SPMAT (C16): SparseBinaryMatrix against the abstract bit array, for all shapes and all logical/physical row and column maps:
get, set, swap_rows, swap_columns.  cell(i, j) = dense-tail bit of physical row l2p_row[i] if j is one of the last num_dense_columns
columns, else membership of physical column l2p_col[j] in the sparse row (V-SPVEC's key set)."""
from vunit import VUnit
import common
import v_dense, v_sparse, v_spvec

SPEC = r'''
verus! {
pub open spec fn perm_ok_u32(l2p: Seq<u32>, p2l: Seq<u32>, n: int) -> bool {
    &&& l2p.len() == n && p2l.len() == n
    &&& forall |i: int| 0 <= i < n ==> (#[trigger] l2p[i] as int) < n && p2l[l2p[i] as int] as int == i
    &&& forall |q: int| 0 <= q < n ==> (#[trigger] p2l[q] as int) < n && l2p[p2l[q] as int] as int == q
}
pub open spec fn perm_ok_u16(l2p: Seq<u16>, p2l: Seq<u16>, n: int) -> bool {
    &&& l2p.len() == n && p2l.len() == n
    &&& forall |i: int| 0 <= i < n ==> (#[trigger] l2p[i] as int) < n && p2l[l2p[i] as int] as int == i
    &&& forall |q: int| 0 <= q < n ==> (#[trigger] p2l[q] as int) < n && l2p[p2l[q] as int] as int == q
}
pub open spec fn sp_wf(m: SparseBinaryMatrix) -> bool {
    &&& m.width < 65536 && m.height < 16777216 && m.num_dense_columns <= m.width
    &&& m.dense_elements@.len() == m.height as int * rww(m.num_dense_columns as int)
    &&& m.sparse_elements@.len() == m.height as int
    &&& forall |r: int| 0 <= r < m.height ==> sv_wf(#[trigger] m.sparse_elements@[r]) && sv_below(m.sparse_elements@[r], m.width as int)
    &&& perm_ok_u32(m.logical_row_to_physical@, m.physical_row_to_logical@, m.height as int)
    &&& perm_ok_u16(m.logical_col_to_physical@, m.physical_col_to_logical@, m.width as int)
}
// every stored key (physical column) is a column of the matrix
pub open spec fn sv_below(v: SparseBinaryVec, w: int) -> bool { forall |k: u16| sv_has(v, k) ==> (k as int) < w }
pub open spec fn is_dense_col(m: SparseBinaryMatrix, j: int) -> bool { m.width - j <= m.num_dense_columns }
// THE ABSTRACTION: logical cell (i, j)
pub open spec fn sp_cell(m: SparseBinaryMatrix, i: int, j: int) -> bool {
    let pi = m.logical_row_to_physical@[i] as int;
    if is_dense_col(m, j) { dcell(m, pi, j - (m.width - m.num_dense_columns)) } else { sv_has(m.sparse_elements@[pi], m.logical_col_to_physical@[j]) }
}
pub open spec fn sp_in(m: SparseBinaryMatrix, i: int, j: int) -> bool { 0 <= i < m.height && 0 <= j < m.width }
pub open spec fn sp_frame(o: SparseBinaryMatrix, n: SparseBinaryMatrix) -> bool {
    n.height == o.height && n.width == o.width && n.num_dense_columns == o.num_dense_columns && n.column_index_disabled == o.column_index_disabled
}
pub proof fn lemma_rww64(n: int)
    requires n >= 1,
    ensures rw(64 * rww(n)) == rww(n), 0 <= pad(n) < 64, pad(n) + n == 64 * rww(n),
{
    lemma_pad(n);
    let k = rww(n);
    lemma_ceil_div_exact(64 * k, 64);
    lemma_fundamental_div_mod_converse(64 * k, 64, k, 0);
}
// distinct (physical row, dense column) pairs live in distinct (word, bit) positions of the right-aligned dense tail
pub proof fn lemma_dense_distinct(n: int, h: int, r1: int, c1: int, r2: int, c2: int)
    requires n >= 1, 0 <= r1 < h, 0 <= r2 < h, 0 <= c1 < n, 0 <= c2 < n, (r1 != r2 || c1 != c2),
    ensures r1 * rww(n) + (pad(n) + c1) / 64 != r2 * rww(n) + (pad(n) + c2) / 64 || (pad(n) + c1) % 64 != (pad(n) + c2) % 64,
            0 <= r1 * rww(n) + (pad(n) + c1) / 64 < h * rww(n), 0 <= (pad(n) + c1) % 64 < 64,
{
    lemma_rww64(n);
    lemma_cell_distinct(64 * rww(n), r1, pad(n) + c1, r2, pad(n) + c2);
    lemma_word_index(h, 64 * rww(n), r1, pad(n) + c1);
}
pub proof fn lemma_new_all_zero(r: SparseBinaryMatrix)
    requires sp_wf(r),
             forall |p: int| 0 <= p < r.dense_elements@.len() ==> #[trigger] r.dense_elements@[p] == 0,
             forall |k: int| 0 <= k < r.height ==> (#[trigger] r.sparse_elements@[k]).elements@.len() == 0,
    ensures forall |i: int, j: int| sp_in(r, i, j) ==> !#[trigger] sp_cell(r, i, j),
{
    assert forall |i: int, j: int| sp_in(r, i, j) implies !#[trigger] sp_cell(r, i, j) by {
        let pi = r.logical_row_to_physical@[i] as int;
        if is_dense_col(r, j) {
            let c = j - (r.width - r.num_dense_columns);
            lemma_word_bounds(r.num_dense_columns as int, r.height as int, pi, c);
            lemma_zero_bit(((pad(r.num_dense_columns as int) + c) % 64) as u64);
        } else {
            let v = r.sparse_elements@[pi];
            assert(!v.elements@.contains(r.logical_col_to_physical@[j]));
        }
    }
}
// number of set cells of logical row i in logical columns [a, b)
pub open spec fn sp_cnt(m: SparseBinaryMatrix, i: int, a: int, b: int) -> int
    decreases b - a,
{ if b <= a { 0 } else { sp_cnt(m, i, a, b - 1) + (if sp_cell(m, i, b - 1) { 1int } else { 0int }) } }
// what the loop of count_ones computes: keys[0..n) whose logical column lies in [a, b)
pub open spec fn key_cnt(keys: Seq<u16>, p2l: Seq<u16>, n: int, a: int, b: int) -> int
    decreases n,
{ if n <= 0 { 0 } else { key_cnt(keys, p2l, n - 1, a, b) + (if a <= p2l[keys[n - 1] as int] as int && (p2l[keys[n - 1] as int] as int) < b { 1int } else { 0int }) } }
// logical columns in [a, b) whose physical column is among keys[0..n)
pub open spec fn col_cnt(keys: Seq<u16>, l2p: Seq<u16>, n: int, a: int, b: int) -> int
    decreases b - a,
{ if b <= a { 0 } else { col_cnt(keys, l2p, n, a, b - 1) + (if keys.subrange(0, n).contains(l2p[b - 1]) { 1int } else { 0int }) } }
pub proof fn lemma_col_cnt_step(keys: Seq<u16>, l2p: Seq<u16>, p2l: Seq<u16>, w: int, n: int, a: int, b: int)
    requires perm_ok_u16(l2p, p2l, w), 0 <= a <= b <= w, 0 <= n < keys.len(), (keys[n] as int) < w,
             forall |x: int, y: int| 0 <= x < y < keys.len() ==> keys[x] < keys[y],
    ensures col_cnt(keys, l2p, n + 1, a, b) == col_cnt(keys, l2p, n, a, b) + (if a <= p2l[keys[n] as int] as int && (p2l[keys[n] as int] as int) < b { 1int } else { 0int }),
    decreases b - a,
{
    if a < b {
        lemma_col_cnt_step(keys, l2p, p2l, w, n, a, b - 1);
        let c = l2p[b - 1];
        let s0 = keys.subrange(0, n); let s1 = keys.subrange(0, n + 1);
        assert(s1.contains(c) == (s0.contains(c) || c == keys[n])) by {
            if s0.contains(c) { let q = choose |q: int| 0 <= q < s0.len() && s0[q] == c; assert(s1[q] == c); }
            if c == keys[n] { assert(s1[n] == c); }
            if s1.contains(c) { let q = choose |q: int| 0 <= q < s1.len() && s1[q] == c; if q < n { assert(s0[q] == c); } }
        }
        assert(!(s0.contains(c) && c == keys[n])) by {
            if s0.contains(c) && c == keys[n] { let q = choose |q: int| 0 <= q < s0.len() && s0[q] == c; assert(keys[q] < keys[n]); }
        }
        // c == keys[n]  <==>  b - 1 == p2l[keys[n]]
        assert((c == keys[n]) == (p2l[keys[n] as int] as int == b - 1)) by {
            assert(p2l[l2p[b - 1] as int] as int == b - 1);
            if p2l[keys[n] as int] as int == b - 1 { assert(l2p[p2l[keys[n] as int] as int] as int == keys[n] as int); }
        }
    }
}
pub proof fn lemma_key_col_cnt(keys: Seq<u16>, l2p: Seq<u16>, p2l: Seq<u16>, w: int, n: int, a: int, b: int)
    requires perm_ok_u16(l2p, p2l, w), 0 <= a <= b <= w, 0 <= n <= keys.len(), forall |q: int| 0 <= q < keys.len() ==> (#[trigger] keys[q] as int) < w,
             forall |x: int, y: int| 0 <= x < y < keys.len() ==> keys[x] < keys[y],
    ensures key_cnt(keys, p2l, n, a, b) == col_cnt(keys, l2p, n, a, b), 0 <= key_cnt(keys, p2l, n, a, b) <= n,
    decreases n,
{
    if n > 0 {
        lemma_key_col_cnt(keys, l2p, p2l, w, n - 1, a, b);
        lemma_col_cnt_step(keys, l2p, p2l, w, n - 1, a, b);
    } else {
        lemma_col_cnt_zero(keys, l2p, a, b);
    }
}
pub proof fn lemma_col_cnt_zero(keys: Seq<u16>, l2p: Seq<u16>, a: int, b: int)
    ensures col_cnt(keys, l2p, 0, a, b) == 0,
    decreases b - a,
{
    if a < b { lemma_col_cnt_zero(keys, l2p, a, b - 1); assert(keys.subrange(0, 0).len() == 0); }
}
// with all keys: col_cnt is sp_cnt (for a range inside the sparse part)
pub proof fn lemma_col_cnt_is_sp_cnt(m: SparseBinaryMatrix, i: int, a: int, b: int)
    requires sp_wf(m), 0 <= i < m.height, 0 <= a <= b, b <= m.width - m.num_dense_columns,
    ensures ({ let v = m.sparse_elements@[m.logical_row_to_physical@[i] as int]; col_cnt(v.elements@, m.logical_col_to_physical@, v.elements@.len() as int, a, b) == sp_cnt(m, i, a, b) }),
    decreases b - a,
{
    if a < b {
        lemma_col_cnt_is_sp_cnt(m, i, a, b - 1);
        let v = m.sparse_elements@[m.logical_row_to_physical@[i] as int];
        assert(v.elements@.subrange(0, v.elements@.len() as int) =~= v.elements@);
    }
}
// dense-tail bit of a word vector (dcell(m, r, c) == dbit(m.dense_elements@, m.num_dense_columns, r, c))
pub open spec fn dbit(words: Seq<u64>, nd: int, r: int, c: int) -> bool { bit_of(words[r * rww(nd) + (pad(nd) + c) / 64], (pad(nd) + c) % 64) }
pub proof fn lemma_xor_bit(a: u64, b: u64, c: u64)
    requires c < 64,
    ensures bit_of(a ^ b, c as int) == (bit_of(a, c as int) != bit_of(b, c as int)),
{
    assert(((a ^ b) & (1u64 << c) != 0) == ((a & (1u64 << c) != 0) != (b & (1u64 << c) != 0))) by (bit_vector) requires c < 64;
}
pub open spec fn swap_idx(a: int, i: int, j: int) -> int { if a == i { j } else if a == j { i } else { a } }
} // verus!
'''


def build():
    u = VUnit('V-SPMAT')
    u.raw(common.PRELUDE)
    u.raw(common.ARITH)
    u.raw('verus! {')
    u.struct('src/octet.rs', 'Octet', prefix='#[derive(PartialEq, Eq, Structural)]\n')
    u.raw('''impl Octet {
    pub fn zero() -> (r: Octet) ensures r.value == 0 { Octet { value: 0 } }
    pub fn one() -> (r: Octet) ensures r.value == 1 { Octet { value: 1 } }
}
#[verifier::external_body] pub struct ImmutableListMap { _p: () }
''', label='Octet::zero / one; opaque column index type')
    u.struct('src/sparse_vec.rs', 'SparseBinaryVec')
    u.struct('src/octets.rs', 'BinaryOctetVec')
    u.struct('src/sparse_matrix.rs', 'SparseBinaryMatrix', subst=[('    debug_indexed_column_valid: Vec<bool>,\n', '')])
    u.raw('} // verus!')
    u.raw(v_dense.SPEC.split('// the abstract matrix: cell (i, j) of a dense matrix')[0] + '\n} // verus!\n', label='rw / bit_of / <[T]>::swap spec (V-DENSE)')
    u.raw(DENSE_INDEX_LEMMAS, label='word-index lemmas of V-DENSE (pure arithmetic)')
    u.raw(v_sparse.BIT_LEMMAS, label='bit lemmas (V-SPARSE)')
    u.raw(v_sparse.SPEC.split('pub open spec fn sm_wf')[0] + '\n' + 'pub proof fn lemma_pad' + v_sparse.SPEC.split('pub proof fn lemma_pad')[1], label='dense-tail addressing spec (V-SPARSE)')
    u.raw(v_spvec.SPEC)
    u.raw(v_spvec.MERGE_SPEC, label='merge lemmas + cursor model (V-SPVEC)')
    u.raw(SPEC)
    u.trust('rule S5 binary_search model (V-SPVEC); assume_specification <[T]>::swap (std documented behaviour)')
    u.trust('rule S6: `v[i].insert(a, b)` (IndexMut projection followed by a &mut method) replaced by a model function whose contract is the callee\'s own contract on element i and a frame on the others')
    u.trust('rule S7: `e.unwrap_or_else(f)` desugared to `match e { Some(x) => x, None => f() }`; `unimplemented!(..)` is a refusal (never returns)')
    u.raw('verus! {')
    v_spvec.spvec(u)
    u.raw('''
#[verifier::external_body]
fn verif_panic<A>() -> (r: A) ensures false { panic!() }
// rule S6: self.sparse_elements[i].insert(a, b)
#[verifier::external_body]
fn verif_elem_insert(v: &mut Vec<SparseBinaryVec>, i: usize, a: usize, b: Octet)
    requires (i as int) < old(v)@.len(), sv_wf(old(v)@[i as int]), a < 65536,
    ensures final(v)@.len() == old(v)@.len(), sv_wf(final(v)@[i as int]),
            forall |k: u16| sv_has(final(v)@[i as int], k) == (if k == a as u16 { b.value != 0 } else { sv_has(old(v)@[i as int], k) }),
            forall |r: int| 0 <= r < old(v)@.len() && r != i ==> #[trigger] final(v)@[r] == old(v)@[r],
{ unimplemented!() }
pub assume_specification<T: Clone>[ <[T]>::to_vec ](s: &[T]) -> (r: Vec<T>)
    ensures r@.len() == s@.len(), forall |i: int| 0 <= i < s@.len() ==> cloned::<T>(#[trigger] s@[i], r@[i]);
impl BinaryOctetVec {
    #[verifier::external_body]
    pub fn new(elements: Vec<u64>, length: usize) -> (r: BinaryOctetVec)
        requires elements@.len() == rww(length as int),
        ensures r.elements == elements, r.length == length,
    { unimplemented!() }
}
// rule S6 (pair form): `let (d, s) = get_both_indices(&mut v, i, j); .. d.add_assign(s)` -- the contract is SparseBinaryVec::add_assign's own
// (GF(2) sum of two sparse rows == symmetric difference of their key sets; returns whether a key new to d appeared), a frame for the other rows
#[verifier::external_body]
fn verif_rows_add_assign(v: &mut Vec<SparseBinaryVec>, i: usize, j: usize) -> (column_added: bool)
    requires (i as int) < old(v)@.len(), (j as int) < old(v)@.len(), i != j, sv_wf(old(v)@[i as int]), sv_wf(old(v)@[j as int]),
    ensures final(v)@.len() == old(v)@.len(), sv_wf(final(v)@[i as int]),
            forall |k: u16| sv_has(final(v)@[i as int], k) == (sv_has(old(v)@[i as int], k) != sv_has(old(v)@[j as int], k)),
            forall |r: int| 0 <= r < old(v)@.len() && r != i ==> #[trigger] final(v)@[r] == old(v)@[r],
            column_added == (exists |k: u16| sv_has(old(v)@[j as int], k) && !sv_has(old(v)@[i as int], k)),
{ unimplemented!() }
// rule S4: vec![SparseBinaryVec::with_capacity(10); n] -- n empty sparse rows
#[verifier::external_body]
fn verif_empty_rows(n: usize) -> (r: Vec<SparseBinaryVec>)
    ensures r@.len() == n, forall |k: int| 0 <= k < n ==> (#[trigger] r@[k]).elements@.len() == 0,
{ unimplemented!() }
// rule S9: Vec<u32>::clone / Vec<u16>::clone copy the elements
#[verifier::external_body]
fn verif_clone_u32(v: &Vec<u32>) -> (r: Vec<u32>) ensures r@ == v@ { unimplemented!() }
#[verifier::external_body]
fn verif_clone_u16(v: &Vec<u16>) -> (r: Vec<u16>) ensures r@ == v@ { unimplemented!() }
pub proof fn lemma_rww_formula(n: int)
    requires 1 <= n < 65536,
    ensures (n - 1) / 64 + 1 == rww(n), 1 <= rww(n) <= 1024,
{
    lemma_ceil_div_exact(n, 64);
    lemma_fundamental_div_mod(n - 1, 64); lemma_fundamental_div_mod(n, 64); lemma_mod_bound(n - 1, 64); lemma_mod_bound(n, 64);
    let q = (n - 1) / 64; let r = (n - 1) % 64;
    if r == 63 { lemma_fundamental_div_mod_converse(n, 64, q + 1, 0); } else { lemma_fundamental_div_mod_converse(n, 64, q, r + 1); }
    assert(q <= 1023) by { if q >= 1024 { assert(64 * q >= 65536) by (nonlinear_arith) requires q >= 1024; } }
    lemma_div_pos_is_pos(n - 1, 64);
}
impl SparseBinaryMatrix {
''', label='model functions')
    v_sparse.helpers(u)
    u.fn('src/sparse_matrix.rs', 'logical_col_to_dense_col', impl='impl SparseBinaryMatrix', ret='r', rules=['A1'],
         requires=['self.num_dense_columns <= self.width', 'col < self.width', 'self.width - col <= self.num_dense_columns'],
         ensures=['r as int == col as int - (self.width as int - self.num_dense_columns as int)', 'r < self.num_dense_columns'])
    IMPLT = 'impl BinaryMatrix for SparseBinaryMatrix'
    DN = 'self.num_dense_columns as int'
    u.fn('src/sparse_matrix.rs', 'new', impl=IMPLT, ret='r', rules=['A1'],
         requires=['height < 16777216', 'width < 65536', 'trailing_dense_column_hint <= width'],
         ensures=['sp_wf(r)', 'r.height == height && r.width == width && r.num_dense_columns == trailing_dense_column_hint && r.column_index_disabled',
                  'forall |i: int, j: int| sp_in(r, i, j) ==> !#[trigger] sp_cell(r, i, j)'],
         resubst=[(r'vec!\[SparseBinaryVec::with_capacity\(10\); (\w+)\]', r'verif_empty_rows(\1)', 'S4-vec-of-empty-rows'),
                  (r'#\[cfg\(debug_assertions\)\]\s*debug_indexed_column_valid: vec!\[true; width\],', '', 'cfg-debug-assertions-dropped'),
                  (r'let mut col_mapping = vec!\[0; width\];', 'let mut col_mapping: Vec<u16> = vec![0u16; width];', 'type-annotation'),
                  (r'let mut row_mapping = vec!\[0; height\];', 'let mut row_mapping: Vec<u32> = vec![0u32; height];', 'type-annotation'),
                  (r'vec!\[0; height \* ', 'vec![0u64; height * ', 'type-annotation'),
                  (r'\b(row_mapping|col_mapping)\[(\w+)\] = ([^;]+);', r'\1.set(\2, \3);', 'S8-index-assign'),
                  (r'logical_row_to_physical: row_mapping\.clone\(\),', 'logical_row_to_physical: verif_clone_u32(&row_mapping),', 'S9-vec-clone'),
                  (r'logical_col_to_physical: col_mapping\.clone\(\),', 'logical_col_to_physical: verif_clone_u16(&col_mapping),', 'S9-vec-clone'),
                  (r'(?s)(\n\s*)(SparseBinaryMatrix \{.*\})\s*\}\s*$', r'\1let verif_r = \2;\n proof { lemma_new_all_zero(verif_r); }\n verif_r\n}', 'bind-tail-expression')],
         loops={0: 'invariant height < 16777216, row_mapping@.len() == height as int, forall |k: int| 0 <= k < i as int ==> #[trigger] row_mapping@[k] as int == k,',
                1: 'invariant width < 65536, col_mapping@.len() == width as int, forall |k: int| 0 <= k < i as int ==> #[trigger] col_mapping@[k] as int == k,'},
         inserts=[('let dense_elements = if trailing_dense_column_hint > 0 {', 'before',
                   'proof { if trailing_dense_column_hint > 0 { lemma_rww_formula(trailing_dense_column_hint as int);'
                   ' assert(height as int * rww(trailing_dense_column_hint as int) <= 16777216 * 1024) by (nonlinear_arith) requires 0 <= height as int <= 16777216, 0 <= rww(trailing_dense_column_hint as int) <= 1024; }'
                   ' else { assert(rww(0) == 0) by { lemma_ceil_div_exact(0, 64); } assert(height as int * 0 == 0) by (nonlinear_arith); } }')],
         append=None)
    u.fn('src/sparse_matrix.rs', 'height', impl=IMPLT, ret='r', ensures=['r == self.height'])
    u.fn('src/sparse_matrix.rs', 'width', impl=IMPLT, ret='r', ensures=['r == self.width'])
    u.fn('src/sparse_matrix.rs', 'get', impl=IMPLT, ret='r',
         requires=['sp_wf(*self)', 'sp_in(*self, i as int, j as int)'],
         ensures=['r.value == (if sp_cell(*self, i as int, j as int) { 1u8 } else { 0u8 })'],
         resubst=[(r'return\s+([^;]*?)\s*\.unwrap_or_else\((\w+(?:::\w+)*)\);', r'return match \1 { Some(verif_x) => verif_x, None => \2() };', 'S7-unwrap-or-else')],
         hint_inserts=[
                       ('let (word, bit) = self.bit_position(physical_i, self.logical_col_to_dense_col(j));', 'before',
                        'proof { lemma_word_bounds(%s, self.height as int, physical_i as int, j as int - (self.width as int - %s)); }' % (DN, DN))])
    u.fn('src/sparse_matrix.rs', 'set', impl=IMPLT, ret='r', rules=['A1'],
         requires=['sp_wf(*old(self))', 'sp_in(*old(self), i as int, j as int)', '!is_dense_col(*old(self), j as int) ==> old(self).column_index_disabled'],
         ensures=['sp_wf(*final(self))', 'sp_frame(*old(self), *final(self))',
                  'final(self).logical_row_to_physical@ == old(self).logical_row_to_physical@ && final(self).logical_col_to_physical@ == old(self).logical_col_to_physical@',
                  'forall |a: int, b: int| sp_in(*old(self), a, b) ==> #[trigger] sp_cell(*final(self), a, b) == (if a == i as int && b == j as int { value.value != 0 } else { sp_cell(*old(self), a, b) })'],
         subst=[('self.sparse_elements[physical_i].insert(physical_j, value);', 'verif_elem_insert(&mut self.sparse_elements, physical_i, physical_j, value);', 'S6-indexmut-method')],
         hint_inserts=[('let (word, bit) = self.bit_position(physical_i, self.logical_col_to_dense_col(j));', 'before',
                        'proof { lemma_word_bounds(%s, self.height as int, physical_i as int, j as int - (self.width as int - %s)); }' % (DN, DN))],
         append='''proof {
    let o = *old(self); let n = *self; let nd = o.num_dense_columns as int; let h = o.height as int; let pi = o.logical_row_to_physical@[i as int] as int;
    assert forall |a: int, b: int| sp_in(o, a, b) implies #[trigger] sp_cell(n, a, b) == (if a == i as int && b == j as int { value.value != 0 } else { sp_cell(o, a, b) }) by {
        let pa = o.logical_row_to_physical@[a] as int;
        assert(pa != pi || a == i as int) by { if pa == pi { assert(o.physical_row_to_logical@[pa] as int == a); } }
        if is_dense_col(o, j as int) {
            let cj = j as int - (o.width as int - nd);
            if is_dense_col(o, b) {
                let cb = b - (o.width as int - nd);
                lemma_word_bounds(nd, h, pa, cb); lemma_word_bounds(nd, h, pi, cj);
                let wj = pi * rww(nd) + (pad(nd) + cj) / 64; let bj = (pad(nd) + cj) % 64;
                let wb = pa * rww(nd) + (pad(nd) + cb) / 64; let bb = (pad(nd) + cb) % 64;
                if pa != pi || cb != cj { lemma_dense_distinct(nd, h, pa, cb, pi, cj); }
                if wb == wj { lemma_set_bit(o.dense_elements@[wj], bj as u64, bb as u64); }
            }
        } else {
            if !is_dense_col(o, b) && pa == pi {
                let pj = o.logical_col_to_physical@[j as int]; let pb = o.logical_col_to_physical@[b];
                assert(pb != pj || b == j as int) by { if pb == pj { assert(o.physical_col_to_logical@[pb as int] as int == b); } }
            }
        }
    }
}''')
    u.fn('src/sparse_matrix.rs', 'get_sub_row_as_octets', impl=IMPLT, ret='r', rules=['A1'],
         requires=['sp_wf(*self)', '(row as int) < self.height', 'self.num_dense_columns >= 1', 'start_col as int == self.width - self.num_dense_columns'],
         ensures=['r.length == self.num_dense_columns', 'r.elements@.len() == rww(self.num_dense_columns as int)',
                  # the packed words are the dense tail of the row: dense column c (logical column start_col + c) at global bit pad + c
                  'forall |c: int| 0 <= c < self.num_dense_columns ==> #[trigger] bit_of(r.elements@[(pad(self.num_dense_columns as int) + c) / 64], (pad(self.num_dense_columns as int) + c) % 64) == sp_cell(*self, row as int, start_col as int + c)'],
         hint_inserts=[('let last_word = first_word + self.row_word_width();', 'before',
                        'proof { let nd = self.num_dense_columns as int; lemma_pad(nd); lemma_word_bounds(nd, self.height as int, physical_row as int, 0);'
                        ' lemma_small_mod(pad(nd) as nat, 64); lemma_basic_div(pad(nd), 64);'
                        ' assert(physical_row as int * rww(nd) + rww(nd) <= self.height as int * rww(nd)) by (nonlinear_arith) requires (physical_row as int) + 1 <= self.height as int, rww(nd) >= 0;'
                        ' lemma_rww_formula(nd); assert(self.height as int * rww(nd) <= 16777216 * 1024) by (nonlinear_arith) requires 0 <= self.height as int <= 16777216, 0 <= rww(nd) <= 1024;'
                        ' assert(first_word as int == physical_row as int * rww(nd)); }')],
         resubst=[(r'(?s)(\n\s*)(BinaryOctetVec::new\(.*\))\s*\}\s*$', r'\1let verif_r = \2;\n proof { let nd = self.num_dense_columns as int; assert forall |c: int| 0 <= c < nd implies'
                   r' #[trigger] bit_of(verif_r.elements@[(pad(nd) + c) / 64], (pad(nd) + c) % 64) == sp_cell(*self, row as int, start_col as int + c) by {'
                   r' lemma_word_bounds(nd, self.height as int, physical_row as int, c); lemma_pad(nd);'
                   r' assert((pad(nd) + c) / 64 < rww(nd)) by { if (pad(nd) + c) / 64 >= rww(nd) { lemma_fundamental_div_mod(pad(nd) + c, 64); assert(64 * ((pad(nd) + c) / 64) >= 64 * rww(nd)) by (nonlinear_arith) requires (pad(nd) + c) / 64 >= rww(nd); } }'
                   r' lemma_div_pos_is_pos(pad(nd) + c, 64); let k = (pad(nd) + c) / 64; lemma_basic_div(pad(nd), 64); assert(first_word as int == physical_row as int * rww(nd));'
                   r' let sl = self.dense_elements@.subrange(first_word as int, last_word as int); assert(k < rww(nd)); assert(sl[k] == self.dense_elements@[first_word as int + k]); assert(verif_r.elements@[k] == sl[k]); } }\n verif_r\n}', 'bind-tail-expression')])
    u.fn('src/sparse_matrix.rs', 'count_ones', impl=IMPLT, ret='r', rules=['D11'],
         requires=['sp_wf(*self)', '(row as int) < self.height', 'start_col <= end_col', 'end_col as int <= self.width - self.num_dense_columns'],
         ensures=['r as int == sp_cnt(*self, row as int, start_col as int, end_col as int)'],
         resubst=[(r'unimplemented!\(\s*"[^"]*"\s*\);', 'return verif_panic();', 'A3-unimplemented-is-refusal'),
                  (r'let mut ones = 0;', 'let mut ones: usize = 0;', 'type-annotation')],
         loops={0: {'spec': ('invariant sp_wf(*self), (row as int) < self.height, start_col <= end_col, end_col as int <= self.width - self.num_dense_columns, physical_row as int == self.logical_row_to_physical@[row as int] as int,'
                             ' ones as int == key_cnt(self.sparse_elements@[physical_row as int].elements@, self.physical_col_to_logical@, verif_q as int, start_col as int, end_col as int), ones <= verif_q,'),
                    'body_top': ('proof { let v = self.sparse_elements@[physical_row as int]; assert(sv_has(v, v.elements@[verif_q as int])); assert((v.elements@[verif_q as int] as int) < self.width); }')}},
         hint_inserts=[('return ones;', 'before',
                        'proof { let v = self.sparse_elements@[physical_row as int];'
                        ' assert forall |q: int| 0 <= q < v.elements@.len() implies (#[trigger] v.elements@[q] as int) < self.width by { assert(sv_has(v, v.elements@[q])); }'
                        ' lemma_key_col_cnt(v.elements@, self.logical_col_to_physical@, self.physical_col_to_logical@, self.width as int, v.elements@.len() as int, start_col as int, end_col as int);'
                        ' lemma_col_cnt_is_sp_cnt(*self, row as int, start_col as int, end_col as int); }')])
    ND = 'self.num_dense_columns as int'
    PAIR = {}
    u.fn('src/sparse_matrix.rs', 'add_assign_rows', impl=IMPLT, ret='r', rules=['A1'],
         requires=['sp_wf(*old(self))', '(dest as int) < old(self).height', '(src as int) < old(self).height', 'dest != src',
                   'start_col == 0 || start_col as int == old(self).width - old(self).num_dense_columns',
                   # indexed phase: only a single-key row whose key dest already has may be added (the two asserts of the function)
                   'old(self).column_index_disabled || start_col != 0 || ({ let sv = old(self).sparse_elements@[old(self).logical_row_to_physical@[src as int] as int];'
                   ' let dv = old(self).sparse_elements@[old(self).logical_row_to_physical@[dest as int] as int]; sv.elements@.len() == 1 && sv_has(dv, sv.elements@[0]) })'],
         ensures=['sp_wf(*final(self))', 'sp_frame(*old(self), *final(self))',
                  'final(self).logical_row_to_physical@ == old(self).logical_row_to_physical@ && final(self).logical_col_to_physical@ == old(self).logical_col_to_physical@',
                  # row addition over GF(2): the dense tail always, the sparse part when start_col == 0; every other row untouched
                  'forall |a: int, b: int| sp_in(*old(self), a, b) ==> #[trigger] sp_cell(*final(self), a, b) == ('
                  ' if a == dest as int && (is_dense_col(*old(self), b) || start_col == 0) { sp_cell(*old(self), dest as int, b) != sp_cell(*old(self), src as int, b) } else { sp_cell(*old(self), a, b) })'],
         # the two index arguments of get_both_indices are carried over to the model call in the order the code gives them
         resubst=[(r'let \(dest_row, temp_row\) =\s*get_both_indices\(&mut self\.sparse_elements, (\w+), (\w+)\);', lambda m, st=PAIR: (st.update(i=m.group(1), j=m.group(2)), '')[1], 'S6-pair-projection'),
                  (r'temp_row\.len\(\)', lambda m, st=PAIR: 'self.sparse_elements[%s].len()' % st['j'], 'S6-pair-projection'),
                  (r'dest_row\.add_assign\(temp_row\)', lambda m, st=PAIR: 'verif_rows_add_assign(&mut self.sparse_elements, %s, %s)' % (st['i'], st['j']), 'S6-pair-projection'),
                  (r'self\.dense_elements\[dest_word \+ word\] \^= self\.dense_elements\[src_word \+ word\];', 'self.dense_elements.set(dest_word + word, self.dense_elements[dest_word + word] ^ self.dense_elements[src_word + word]);', 'S8-index-op-assign'),
                  (r'(?s)#\[cfg\(debug_assertions\)\]\s*\{.*?\n            \}', '', 'cfg-debug-assertions-dropped'),
                  (r'#\[cfg\(debug_assertions\)\]\s*self\.verify\(\);', '', 'cfg-debug-assertions-dropped')],
         inserts=[('if self.num_dense_columns > 0 {', 'before',
                   'let ghost pd = physical_dest as int; let ghost ps = physical_src as int; let ghost nd = @ND@; let ghost h = self.height as int; let ghost d0 = self.dense_elements@;\n'
                   'proof { assert(pd != ps) by { if pd == ps { assert(self.physical_row_to_logical@[pd] as int == dest as int); assert(self.physical_row_to_logical@[ps] as int == src as int); } }'
                   ' if nd >= 1 { lemma_pad(nd); lemma_rww_formula(nd); lemma_word_bounds(nd, h, pd, 0); lemma_word_bounds(nd, h, ps, 0); lemma_basic_div(pad(nd), 64);'
                   ' assert(pd * rww(nd) + rww(nd) <= h * rww(nd) && ps * rww(nd) + rww(nd) <= h * rww(nd)) by (nonlinear_arith) requires pd + 1 <= h, ps + 1 <= h, rww(nd) >= 0, pd >= 0, ps >= 0;'
                   ' assert(pd * rww(nd) + rww(nd) <= ps * rww(nd) || ps * rww(nd) + rww(nd) <= pd * rww(nd)) by (nonlinear_arith) requires pd != ps, rww(nd) >= 0;'
                   ' assert(h * rww(nd) <= 16777216 * 1024) by (nonlinear_arith) requires 0 <= h <= 16777216, 0 <= rww(nd) <= 1024; } }'.replace('@ND@', ND)),
                  ('if start_col == 0 {', 'before',
                   'let ghost d1 = self.dense_elements@;\n'
                   'proof { assert forall |r: int, c: int| 0 <= r < h && 0 <= c < nd implies #[trigger] dbit(d1, nd, r, c) == (if r == pd { dbit(d0, nd, pd, c) != dbit(d0, nd, ps, c) } else { dbit(d0, nd, r, c) }) by {'
                   ' lemma_word_bounds(nd, h, r, c); lemma_pad(nd); let off = (pad(nd) + c) / 64; let bt = (pad(nd) + c) % 64; lemma_div_pos_is_pos(pad(nd) + c, 64);'
                   ' assert(off < rww(nd)) by { if off >= rww(nd) { lemma_fundamental_div_mod(pad(nd) + c, 64); assert(64 * off >= 64 * rww(nd)) by (nonlinear_arith) requires off >= rww(nd); } }'
                   ' assert(r * rww(nd) + rww(nd) <= h * rww(nd)) by (nonlinear_arith) requires r + 1 <= h, rww(nd) >= 0; assert(r * rww(nd) >= 0) by (nonlinear_arith) requires r >= 0, rww(nd) >= 0;'
                   ' if r == pd { lemma_xor_bit(d0[pd * rww(nd) + off], d0[ps * rww(nd) + off], bt as u64); }'
                   ' else { assert(r * rww(nd) + rww(nd) <= pd * rww(nd) || pd * rww(nd) + rww(nd) <= r * rww(nd)) by (nonlinear_arith) requires r != pd, rww(nd) >= 0; } } }')],
         loops={0: {'spec': ('invariant sp_wf(*old(self)), self.height == old(self).height, self.width == old(self).width, self.num_dense_columns == old(self).num_dense_columns, self.column_index_disabled == old(self).column_index_disabled,'
                             ' self.sparse_elements@ == old(self).sparse_elements@, self.logical_row_to_physical@ == old(self).logical_row_to_physical@, self.physical_row_to_logical@ == old(self).physical_row_to_logical@,'
                             ' self.logical_col_to_physical@ == old(self).logical_col_to_physical@, self.physical_col_to_logical@ == old(self).physical_col_to_logical@,'
                             ' nd == @ND@, nd >= 1, h == self.height as int, 0 <= pd < h, 0 <= ps < h, pd != ps, d0 == old(self).dense_elements@, self.dense_elements@.len() == d0.len(), d0.len() == h * rww(nd),'
                             ' dest_word as int == pd * rww(nd), src_word as int == ps * rww(nd), pd * rww(nd) + rww(nd) <= h * rww(nd), ps * rww(nd) + rww(nd) <= h * rww(nd), h * rww(nd) <= 16777216 * 1024,'
                             ' pd * rww(nd) + rww(nd) <= ps * rww(nd) || ps * rww(nd) + rww(nd) <= pd * rww(nd), word <= rww(nd), pd * rww(nd) >= 0, ps * rww(nd) >= 0,'
                             ' forall |p: int| 0 <= p < d0.len() ==> #[trigger] self.dense_elements@[p] == (if pd * rww(nd) <= p < pd * rww(nd) + word as int { d0[p] ^ d0[p - pd * rww(nd) + ps * rww(nd)] } else { d0[p] }),').replace('@ND@', ND)}},
         append=AAR_APPEND)
    u.fn('src/sparse_matrix.rs', 'swap_rows', impl=IMPLT, ret='r',
         requires=['sp_wf(*old(self))', '(i as int) < old(self).height', '(j as int) < old(self).height'],
         ensures=['sp_wf(*final(self))', 'sp_frame(*old(self), *final(self))',
                  'forall |a: int, b: int| sp_in(*old(self), a, b) ==> #[trigger] sp_cell(*final(self), a, b) == sp_cell(*old(self), swap_idx(a, i as int, j as int), b)'],
         append='''proof {
    let o = *old(self); let n = *self;
    assert forall |a: int, b: int| sp_in(o, a, b) implies #[trigger] sp_cell(n, a, b) == sp_cell(o, swap_idx(a, i as int, j as int), b) by { }
}''')
    u.fn('src/sparse_matrix.rs', 'swap_columns', impl=IMPLT, ret='r',
         sig_subst=[('_: usize', '_hint: usize')],
         requires=['sp_wf(*old(self))', '(i as int) < old(self).width - old(self).num_dense_columns', '(j as int) < old(self).width - old(self).num_dense_columns'],
         ensures=['sp_wf(*final(self))', 'sp_frame(*old(self), *final(self))',
                  'forall |a: int, b: int| sp_in(*old(self), a, b) ==> #[trigger] sp_cell(*final(self), a, b) == sp_cell(*old(self), a, swap_idx(b, i as int, j as int))'],
         resubst=[(r'unimplemented!\(\s*"[^"]*"\s*\);', 'return verif_panic();', 'A3-unimplemented-is-refusal'),
                  (r'#\[cfg\(debug_assertions\)\]\s*self\.debug_indexed_column_valid\.swap\(i, j\);', '', 'cfg-debug-assertions-dropped')],
         append='''proof {
    let o = *old(self); let n = *self;
    assert forall |a: int, b: int| sp_in(o, a, b) implies #[trigger] sp_cell(n, a, b) == sp_cell(o, a, swap_idx(b, i as int, j as int)) by { }
}''')
    u.raw('}')
    u.raw('} // verus!')
    return u


AAR_APPEND = r'''proof {
    let o = *old(self); let n = *self;
    assert forall |a: int, b: int| sp_in(o, a, b) implies #[trigger] sp_cell(n, a, b) == (if a == dest as int && (is_dense_col(o, b) || start_col == 0) { sp_cell(o, dest as int, b) != sp_cell(o, src as int, b) } else { sp_cell(o, a, b) }) by {
        let pa = o.logical_row_to_physical@[a] as int;
        assert(pa != pd || a == dest as int) by { if pa == pd { assert(o.physical_row_to_logical@[pa] as int == a); } }
        if is_dense_col(o, b) {
            let c = b - (o.width - o.num_dense_columns);
            assert(n.dense_elements@ == d1 && o.dense_elements@ == d0 && nd == o.num_dense_columns as int);
            assert(dcell(n, pa, c) == dbit(d1, nd, pa, c) && dcell(o, pa, c) == dbit(d0, nd, pa, c) && dcell(o, pd, c) == dbit(d0, nd, pd, c) && dcell(o, ps, c) == dbit(d0, nd, ps, c));
            assert(ps == o.logical_row_to_physical@[src as int] as int && pd == o.logical_row_to_physical@[dest as int] as int);
        }
    }
}
'''

DENSE_INDEX_LEMMAS = r'''
verus! {
pub proof fn lemma_word_index(h: int, w: int, i: int, j: int)
    requires 0 <= i < h, 0 <= j < w,
    ensures 0 <= i * rw(w) + j / 64 < h * rw(w), 0 <= j / 64 < rw(w), 0 <= j % 64 < 64, rw(w) >= 1, i * rw(w) >= 0,
            i * rw(w) + rw(w) <= h * rw(w),
{
    lemma_ceil_div_exact(w, 64);
    let r = rw(w);
    assert(r * 64 >= w);
    assert(j / 64 < r) by {
        lemma_fundamental_div_mod(j, 64);
        if j / 64 >= r { assert(64 * (j / 64) >= 64 * r) by (nonlinear_arith) requires j / 64 >= r; }
    }
    lemma_div_pos_is_pos(j, 64);
    assert(i * r >= 0) by (nonlinear_arith) requires i >= 0, r >= 0;
    assert(i * r + r <= h * r) by (nonlinear_arith) requires i + 1 <= h, r >= 0;
}
pub proof fn lemma_cell_distinct(w: int, i1: int, j1: int, i2: int, j2: int)
    requires 0 <= j1 < w, 0 <= j2 < w, 0 <= i1, 0 <= i2, (i1 != i2 || j1 != j2),
    ensures i1 * rw(w) + j1 / 64 != i2 * rw(w) + j2 / 64 || j1 % 64 != j2 % 64,
{
    let r = rw(w);
    lemma_word_index(i1 + 1, w, i1, j1);
    lemma_word_index(i2 + 1, w, i2, j2);
    if i1 == i2 {
        lemma_fundamental_div_mod(j1, 64); lemma_fundamental_div_mod(j2, 64);
    } else if i1 < i2 {
        assert(i1 * r + r <= i2 * r) by (nonlinear_arith) requires i1 + 1 <= i2, r >= 0;
    } else {
        assert(i2 * r + r <= i1 * r) by (nonlinear_arith) requires i2 + 1 <= i1, r >= 0;
    }
}
pub proof fn lemma_word_bounds(n: int, h: int, r: int, c: int)
    requires n >= 1, 0 <= r < h, 0 <= c < n,
    ensures 0 <= r * rww(n) + (pad(n) + c) / 64 < h * rww(n), 0 <= (pad(n) + c) % 64 < 64,
{
    lemma_pad(n);
    let k = rww(n);
    lemma_ceil_div_exact(64 * k, 64);
    lemma_fundamental_div_mod_converse(64 * k, 64, k, 0);
    lemma_word_index(h, 64 * k, r, pad(n) + c);
}
} // verus!
'''
