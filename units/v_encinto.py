"""V-ENCINTO (C04, C09): enc_into == xor of the intermediate symbols at the RFC 6330 5.3.5.3 index sequence (partial correctness:
termination of the `while b1 >= P` loops is the Kani obligation of K-ENCIDX on the twin enc_indices)."""
from vunit import VUnit
import common
import v_slab

SPEC = r'''
verus! {
pub uninterp spec fn w_of(k: int) -> int;
pub uninterp spec fn p_of(k: int) -> int;
pub uninterp spec fn p1_of(k: int) -> int;
// every conjunct is one of the per-row facts K-TAB establishes for all 477 rows (W >= 17, L = W + P < 65536, P >= 1, P <= P1 <= P + 13)
pub open spec fn enc_consts_ok(k: int) -> bool { 17 <= w_of(k) && 1 <= p_of(k) <= p1_of(k) && p1_of(k) <= p_of(k) + 13 && w_of(k) + p_of(k) < 65536 }
// the walk b, b + a, b + 2a, ... modulo m of RFC 6330 5.3.5.3
pub open spec fn orbit(b: int, a: int, m: int, j: int) -> int { (b + j * a) % m }
pub proof fn lemma_orbit_step(b: int, a: int, m: int, j: int)
    requires m > 0, j >= 0, a >= 0, b >= 0,
    ensures orbit(b, a, m, j + 1) == (orbit(b, a, m, j) + a) % m, 0 <= orbit(b, a, m, j) < m,
{
    assert((j + 1) * a == j * a + a) by (nonlinear_arith);
    assert(j * a >= 0) by (nonlinear_arith) requires j >= 0, a >= 0;
    let x = b + j * a;
    lemma_add_mod_noop(x, a, m);
    lemma_add_mod_noop_right(x % m, a, m);
    lemma_mod_bound(x, m);
}
pub proof fn lemma_orbit_zero(b: int, a: int, m: int)
    requires 0 <= b < m,
    ensures orbit(b, a, m, 0) == b,
{
    assert(0 * a == 0) by (nonlinear_arith);
    lemma_small_mod(b as nat, m as nat);
}
// Enc[K', C, (d, a, b, d1, a1, b1)]: the indices of the intermediate symbols that are added up.
//  * LT part: d indices orbit(b, a, W, j), j = 0..d-1
//  * PI part: d1 indices W + orbit(b1, a1, P1, k_t) where k_0 < k_1 < ... are the positions of the walk whose value is < P:
//    k_0 is the first such position >= 0, k_t the first one > k_{t-1}
// opaque: the loop invariants carry it as an atom (nested quantifiers made the proofs unstable); revealed only where a new position is recorded
#[verifier::opaque]
pub open spec fn pi_pos_ok(b1: int, a1: int, p: int, p1: int, from: int, k: int) -> bool {
    from <= k && orbit(b1, a1, p1, k) < p && forall |j: int| from <= j < k ==> #[trigger] orbit(b1, a1, p1, j) >= p
}
// idx[base + s]: a named term so that quantifier triggers contain no arithmetic (arithmetic inside a trigger is matched syntactically)
pub open spec fn at2(idx: Seq<int>, base: int, s: int) -> int { idx[base + s] }
pub open spec fn enc_idx_ok(idx: Seq<int>, ks: Seq<int>, t: (u32, u32, u32, u32, u32, u32), w: int, p: int, p1: int) -> bool {
    let (d, a, b, d1, a1, b1) = t;
    &&& idx.len() == d + d1 && ks.len() == d1 as int
    &&& forall |j: int| 0 <= j < d ==> #[trigger] idx[j] == orbit(b as int, a as int, w, j)
    &&& forall |s: int| 0 <= s < d1 ==> #[trigger] at2(idx, d as int, s) == w + orbit(b1 as int, a1 as int, p1, ks[s])
                                       && pi_pos_ok(b1 as int, a1 as int, p, p1, if s == 0 { 0 } else { ks[s - 1] + 1 }, ks[s])
}
// introduction rule (proved in a small context; callers establish the three conjuncts literally)
pub proof fn lemma_enc_idx_intro(idx: Seq<int>, ks: Seq<int>, t: (u32, u32, u32, u32, u32, u32), w: int, p: int, p1: int)
    requires
        idx.len() == t.0 + t.3 && ks.len() == t.3 as int,
        forall |j: int| 0 <= j < t.0 ==> #[trigger] idx[j] == orbit(t.2 as int, t.1 as int, w, j),
        forall |s: int| 0 <= s < t.3 ==> #[trigger] at2(idx, t.0 as int, s) == w + orbit(t.5 as int, t.4 as int, p1, ks[s])
            && pi_pos_ok(t.5 as int, t.4 as int, p, p1, if s == 0 { 0 } else { ks[s - 1] + 1 }, ks[s]),
    ensures enc_idx_ok(idx, ks, t, w, p, p1),
{
}
// Enc's index sequence is a FUNCTION of the tuple: two sequences satisfying enc_idx_ok for the same (tuple, W, P, P1) are equal.
// (So "the xor over an index sequence satisfying enc_idx_ok" -- the postcondition of enc_into and rebuild_source_symbol_into -- denotes one value.)
pub proof fn lemma_pi_pos_unique(b1: int, a1: int, p: int, p1: int, from: int, k1: int, k2: int)
    requires pi_pos_ok(b1, a1, p, p1, from, k1), pi_pos_ok(b1, a1, p, p1, from, k2),
    ensures k1 == k2,
{
    reveal(pi_pos_ok);
    if k1 < k2 { assert(orbit(b1, a1, p1, k1) >= p); }
    if k2 < k1 { assert(orbit(b1, a1, p1, k2) >= p); }
}
pub proof fn lemma_enc_idx_unique(i1: Seq<int>, k1: Seq<int>, i2: Seq<int>, k2: Seq<int>, t: (u32, u32, u32, u32, u32, u32), w: int, p: int, p1: int)
    requires enc_idx_ok(i1, k1, t, w, p, p1), enc_idx_ok(i2, k2, t, w, p, p1), t.3 <= 3,
    ensures i1 == i2, k1 == k2,
{
    let d = t.0 as int; let d1 = t.3 as int;
    assert forall |s: int| 0 <= s < d1 implies k1[s] == k2[s] by {
        assert(at2(i1, d, 0) == i1[d + 0] && at2(i2, d, 0) == i2[d + 0]);
        lemma_pi_pos_unique(t.5 as int, t.4 as int, p, p1, 0, k1[0], k2[0]);
        if s >= 1 {
            assert(at2(i1, d, 1) == i1[d + 1] && at2(i2, d, 1) == i2[d + 1]);
            lemma_pi_pos_unique(t.5 as int, t.4 as int, p, p1, k1[0] + 1, k1[1], k2[1]);
            if s >= 2 {
                assert(at2(i1, d, 2) == i1[d + 2] && at2(i2, d, 2) == i2[d + 2]);
                lemma_pi_pos_unique(t.5 as int, t.4 as int, p, p1, k1[1] + 1, k1[2], k2[2]);
            }
        }
    }
    assert(k1 =~= k2);
    assert forall |q: int| 0 <= q < i1.len() implies i1[q] == i2[q] by {
        if q >= d { assert(at2(i1, d, q - d) == i1[q] && at2(i2, d, q - d) == i2[q]); }
    }
    assert(i1 =~= i2);
}
// xor of the symbols at the first n indices
pub open spec fn acc(v: Seq<Seq<u8>>, idx: Seq<int>, n: nat) -> Seq<u8>
    decreases n,
{ if n <= 1 { v[idx[0]] } else { xor_seq(acc(v, idx, (n - 1) as nat), v[idx[n - 1]]) } }
} // verus!
'''

ACC_LEMMAS = r'''
verus! {
pub proof fn lemma_acc_push(v: Seq<Seq<u8>>, idx: Seq<int>, x: int)
    requires idx.len() >= 1,
    ensures acc(v, idx.push(x), (idx.len() + 1) as nat) == xor_seq(acc(v, idx, idx.len()), v[x]),
{
    lemma_acc_prefix(v, idx, idx.push(x), idx.len());
}
pub proof fn lemma_acc_prefix(v: Seq<Seq<u8>>, i1: Seq<int>, i2: Seq<int>, n: nat)
    requires 1 <= n <= i1.len(), n <= i2.len(), forall |j: int| 0 <= j < n ==> i1[j] == i2[j],
    ensures acc(v, i1, n) == acc(v, i2, n),
    decreases n,
{
    if n > 1 { lemma_acc_prefix(v, i1, i2, (n - 1) as nat); }
}
} // verus!
'''


def final_steps(W, P, P1):
    """proof text establishing enc_idx_ok(idx, ks, source_tuple, W, P, P1) after the PI loop; the quantified facts are restated with
    the triggers of enc_idx_ok's own definition (idx[source_tuple.0 + s]) because arithmetic inside a trigger is matched syntactically"""
    return ('assert(b0 == source_tuple.2 as int && b10 == source_tuple.5 as int && a == source_tuple.1 && a1 == source_tuple.4 && d == source_tuple.0 && d1 == source_tuple.3);'
            ' assert(idx.len() == d + d1 && ks.len() == d1 as int);'
            ' assert(d1 <= 3 && p as int == (%(P)s) && w as int == (%(W)s) && p1 as int == (%(P1)s));'
            ' assert forall |s: int| 0 <= s < source_tuple.3 implies #[trigger] at2(idx, source_tuple.0 as int, s) == (%(W)s) + orbit(source_tuple.5 as int, source_tuple.4 as int, %(P1)s, ks[s])'
            '   && pi_pos_ok(source_tuple.5 as int, source_tuple.4 as int, %(P)s, %(P1)s, if s == 0 { 0 } else { ks[s - 1] + 1 }, ks[s]) by {'
            '   if s == 0 { assert(at2(idx, d as int, 0) == w as int + orbit(b10, a1 as int, p1 as int, ks[0])); }'
            '   else if s == 1 { assert(at2(idx, d as int, 1) == w as int + orbit(b10, a1 as int, p1 as int, ks[1])); }'
            '   else { assert(s == 2); assert(at2(idx, d as int, 2) == w as int + orbit(b10, a1 as int, p1 as int, ks[2])); } }'
            ' assert forall |j: int| 0 <= j < source_tuple.0 implies #[trigger] idx[j] == orbit(source_tuple.2 as int, source_tuple.1 as int, %(W)s, j) by { assert(idx[j] == orbit(b0, a as int, w as int, j)); }'
            # the three conjuncts of enc_idx_ok, literally
            ' assert(idx.len() == source_tuple.0 + source_tuple.3 && ks.len() == source_tuple.3 as int);'
            ' assert(forall |j: int| 0 <= j < source_tuple.0 ==> #[trigger] idx[j] == orbit(source_tuple.2 as int, source_tuple.1 as int, %(W)s, j));'
            ' assert(forall |s: int| 0 <= s < source_tuple.3 ==> #[trigger] at2(idx, source_tuple.0 as int, s) == (%(W)s) + orbit(source_tuple.5 as int, source_tuple.4 as int, %(P1)s, ks[s])'
            '   && pi_pos_ok(source_tuple.5 as int, source_tuple.4 as int, %(P)s, %(P1)s, if s == 0 { 0 } else { ks[s - 1] + 1 }, ks[s]));'
            ' lemma_enc_idx_intro(idx, ks, source_tuple, %(W)s, %(P)s, %(P1)s);') % {'W': W, 'P': P, 'P1': P1}


def walk_loops(COMMON, ST_J, ST_S, PUSH):
    """loop annotations shared by enc_into (V-ENCINTO) and enc_indices (V-ENCIDX): the two walks of RFC 6330 5.3.5.3.
    ST_J / ST_S: invariant clause tying the tracked exec state (dest / trace) to the ghost index sequence idx inside the LT loop / PI loop;
    PUSH(x): proof text run after `idx = idx.push(x)` (oi is the sequence before the push)"""
    def PI(k, I, KS):
        frm = '0' if k == 0 else '%s[%d] + 1' % (KS, k - 1)
        return ('(at2(%s, d as int, %d) == w as int + orbit(b10, a1 as int, p1 as int, %s[%d]) && pi_pos_ok(b10, a1 as int, p as int, p1 as int, %s, %s[%d]))' % (I, k, KS, k, frm, KS, k))
    return {
             0: {'spec': 'invariant ' + COMMON + ' (b as int) < w as int, b as int == orbit(b0, a as int, w as int, verif_j as int - 1), idx.len() == verif_j as int, 1 <= verif_j, verif_j <= d,'
                         ' forall |j: int| 0 <= j < verif_j as int ==> #[trigger] idx[j] == orbit(b0, a as int, w as int, j), ' + ST_J + ',',
                 'body_top': 'proof { lemma_orbit_step(b0, a as int, w as int, verif_j as int - 1); }',
                 'body_bottom': 'proof { let oi = idx; idx = idx.push(b as int); assert forall |j: int| 0 <= j < verif_j as int + 1 implies #[trigger] idx[j] == orbit(b0, a as int, w as int, j) by { if j < verif_j as int { assert(idx[j] == oi[j]); } } ' + PUSH('b as int') + ' }'},
             1: {'spec': 'invariant ' + COMMON + ' (b1 as int) < p1 as int, gk >= 0, b1 as int == orbit(b10, a1 as int, p1 as int, gk), forall |j: int| 0 <= j < gk ==> #[trigger] orbit(b10, a1 as int, p1 as int, j) >= p as int,',
                 'body_top': 'proof { lemma_orbit_step(b10, a1 as int, p1 as int, gk); }',
                 'body_bottom': 'proof { gk = gk + 1; }'},
             2: {'before': 'proof { let oi = idx; idx = idx.push(w as int + b1 as int); ks = ks.push(gk); ' + PUSH('w as int + b1 as int') +
                           ' assert(pi_pos_ok(b10, a1 as int, p as int, p1 as int, 0, gk)) by { reveal(pi_pos_ok); } assert(at2(idx, d as int, 0) == w as int + b1 as int); }',
                 # d1 <= 3: the PI part is stated position by position (no quantifier over s: those proofs were unstable)
                 'spec': 'invariant ' + COMMON + ' (b1 as int) < p as int, gk >= 0, b1 as int == orbit(b10, a1 as int, p1 as int, gk), idx.len() == d as int + verif_s as int, ks.len() == verif_s as int, 1 <= verif_s, verif_s <= d1, d1 <= 3, ks[verif_s as int - 1] == gk,'
                         ' forall |j: int| 0 <= j < d as int ==> #[trigger] idx[j] == orbit(b0, a as int, w as int, j),'
                         ' ' + PI(0, 'idx', 'ks') + ', verif_s > 1 ==> ' + PI(1, 'idx', 'ks') + ', verif_s > 2 ==> ' + PI(2, 'idx', 'ks') + ','
                         ' ' + ST_S + ',',
                 'body_top': 'let ghost from = gk + 1; proof { lemma_orbit_step(b10, a1 as int, p1 as int, gk); }',
                 'body_bottom': ('proof { let oi = idx; let oks = ks; idx = idx.push(w as int + b1 as int); ks = ks.push(gk); ' + PUSH('w as int + b1 as int') +
                                 ' assert forall |j: int| 0 <= j < d as int implies #[trigger] idx[j] == orbit(b0, a as int, w as int, j) by { assert(idx[j] == oi[j]); }'
                                 ' assert(pi_pos_ok(b10, a1 as int, p as int, p1 as int, from, gk)) by { reveal(pi_pos_ok); }'
                                 ' assert(at2(idx, d as int, verif_s as int) == w as int + b1 as int);'
                                 ' assert(at2(idx, d as int, 0) == at2(oi, d as int, 0) && ks[0] == oks[0]);'
                                 ' if verif_s > 1 { assert(at2(idx, d as int, 1) == at2(oi, d as int, 1) && ks[1] == oks[1]); }'
                                 ' assert(ks[verif_s as int] == gk && ks[verif_s as int - 1] == oks[verif_s as int - 1]); }')},
             3: {'before': 'proof { gk = gk + 1; }',
                 'spec': 'invariant ' + COMMON + ' (b1 as int) < p1 as int, gk >= from, from >= 1, b1 as int == orbit(b10, a1 as int, p1 as int, gk), forall |j: int| from <= j < gk ==> #[trigger] orbit(b10, a1 as int, p1 as int, j) >= p as int,',
                 'body_top': 'proof { lemma_orbit_step(b10, a1 as int, p1 as int, gk); }',
                 'body_bottom': 'proof { gk = gk + 1; }'},
    }


def build():
    u = VUnit('V-ENCINTO')
    u.raw(common.PRELUDE)
    u.raw(common.ARITH)
    u.raw(common.STD_SPECS)
    for t in common.STD_TRUST:
        u.trust(t)
    u.raw('verus! {')
    u.struct('src/octet.rs', 'Octet')
    u.struct('src/symbol_slab.rs', 'SymbolSlab')
    u.struct('src/operation_vector.rs', 'SymbolOps', kind='enum')
    u.raw('} // verus!')
    u.raw(v_slab.SPEC)
    u.raw(v_slab.KERNELS, label='kernel contracts')
    u.raw(SPEC)
    u.trust('octets::add_assign element-wise contract (K-KERN); SymbolSlab::get contract (proved in V-SLAB); table look-ups (V-TAB)')
    u.raw('verus! {')
    u.raw('''
impl SymbolSlab {
    #[verifier::external_body]
    pub fn get(&self, i: usize) -> (r: &[u8])
        requires slab_wf(*self), (i as int) < self.count,
        ensures r@ == view(*self)[i as int], r@.len() == self.symbol_size,
    { unimplemented!() }
}
''', label='SymbolSlab::get contract (proved in V-SLAB)')
    for name, sp in [('num_lt_symbols', 'w_of'), ('num_pi_symbols', 'p_of'), ('calculate_p1', 'p1_of')]:
        u.fn('src/systematic_constants.rs', name, ret='r', external_body=True,
             requires=['source_block_symbols <= 56403'],
             ensures=['r as int == %s(source_block_symbols as int)' % sp, 'enc_consts_ok(source_block_symbols as int)'])
    K = 'source_block_symbols as int'
    VIEW = 'view(*intermediate_symbols)'
    COMMON = ('source_block_symbols <= 56403, slab_wf(*intermediate_symbols), enc_consts_ok(%s), w as int == w_of(%s), p as int == p_of(%s), p1 as int == p1_of(%s),'
              ' intermediate_symbols.count as int >= w as int + p as int, dest@.len() == intermediate_symbols.symbol_size,'
              ' 1 <= a && a < w, 1 <= a1 && a1 < p1, 1 <= d <= 30, d1 == 2 || d1 == 3, b0 < w as int, b10 < p1 as int, 0 <= b0, 0 <= b10,' % (K, K, K, K))
    u.fn('src/encoder.rs', 'enc_into', ret='r', rules=['A1'],
         attrs='#[verifier::exec_allows_no_decreases_clause]', isolate_loops=True,
         requires=['source_block_symbols <= 56403', 'slab_wf(*intermediate_symbols)', 'intermediate_symbols.count as int >= w_of(%s) + p_of(%s)' % (K, K),
                   'old(dest)@.len() == intermediate_symbols.symbol_size',
                   '1 <= source_tuple.0 <= 30', '1 <= source_tuple.1 && (source_tuple.1 as int) < w_of(%s)' % K, '(source_tuple.2 as int) < w_of(%s)' % K,
                   'source_tuple.3 == 2 || source_tuple.3 == 3', '1 <= source_tuple.4 && (source_tuple.4 as int) < p1_of(%s)' % K, '(source_tuple.5 as int) < p1_of(%s)' % K],
         ensures=['exists |idx: Seq<int>, ks: Seq<int>| #[trigger] enc_idx_ok(idx, ks, source_tuple, w_of(%s), p_of(%s), p1_of(%s))'
                  ' && final(dest)@ == acc(view(*intermediate_symbols), idx, (source_tuple.0 + source_tuple.3) as nat)' % (K, K, K)],
         resubst=[(r'for _ in ', lambda m, names=iter(['verif_j', 'verif_s', 'verif_x2', 'verif_x3']): 'for %s in ' % next(names), 'name-loop-var')],
         inserts=[('dest.copy_from_slice(intermediate_symbols.get(b as usize));', 'before',
                   'let ghost b0 = b as int; let ghost b10 = b1 as int; proof { lemma_orbit_zero(b0, a as int, w as int); lemma_orbit_zero(b10, a1 as int, p1 as int); }'),
                  ('dest.copy_from_slice(intermediate_symbols.get(b as usize));', 'after',
                   'let ghost mut idx: Seq<int> = seq![b0]; let ghost mut ks: Seq<int> = Seq::empty(); let ghost mut gk: int = 0;')],
         loops=walk_loops(COMMON, 'dest@ == acc(%s, idx, verif_j as nat)' % VIEW, 'dest@ == acc(%s, idx, (d as int + verif_s as int) as nat)' % VIEW,
                          lambda x: 'lemma_acc_push(%s, oi, %s);' % (VIEW, x)),
         append='proof { ' + final_steps('w_of(%s)' % K, 'p_of(%s)' % K, 'p1_of(%s)' % K) + ' }')
    u.raw('} // verus!')
    u.raw(ACC_LEMMAS, label='xor accumulation lemmas')
    return u
