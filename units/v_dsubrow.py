"""V-DSUBROW (C16): DenseBinaryMatrix::get_sub_row_as_octets(row, start_col) packs the cells (row, start_col..width) right-aligned into
u64 words (last cell at the highest bit of the last word, unused bits on the left zero) -- the layout BinaryOctetVec and the sparse
matrix's dense tail use -- for all shapes."""
from vunit import VUnit
import common
import v_dense, v_sparse

SPEC = r'''
verus! {
// global bit g of a word vector
pub open spec fn gbit(v: Seq<u64>, g: int) -> bool { bit_of(v[g / 64], g % 64) }
pub open spec fn subrow_ok(words: Seq<u64>, m: DenseBinaryMatrix, row: int, start_col: int) -> bool {
    let n = m.width as int - start_col;
    &&& words.len() == rww(n)
    &&& forall |k: int| 0 <= k < n ==> #[trigger] gbit(words, pad(n) + k) == cell(m, row, start_col + k)
    &&& forall |g: int| 0 <= g < pad(n) ==> !#[trigger] gbit(words, g)
}
pub proof fn lemma_gpos(len: int, g: int)
    requires 0 <= g < 64 * len,
    ensures 0 <= g / 64 < len, 0 <= g % 64 < 64, g == 64 * (g / 64) + g % 64,
{
    lemma_fundamental_div_mod(g, 64); lemma_mod_bound(g, 64); lemma_div_pos_is_pos(g, 64);
    if g / 64 >= len { assert(64 * (g / 64) >= 64 * len) by (nonlinear_arith) requires g / 64 >= len; }
}
} // verus!
'''


def build():
    u = VUnit('V-DSUBROW')
    u.raw(common.PRELUDE)
    u.raw(common.ARITH)
    u.raw('verus! {')
    u.struct('src/octet.rs', 'Octet', prefix='#[derive(PartialEq, Eq, Structural)]\n')
    u.raw('''impl Octet {
    pub fn zero() -> (r: Octet) ensures r.value == 0 { Octet { value: 0 } }
    pub fn one() -> (r: Octet) ensures r.value == 1 { Octet { value: 1 } }
}''', label='Octet::zero / one')
    u.struct('src/matrix.rs', 'DenseBinaryMatrix')
    u.struct('src/octets.rs', 'BinaryOctetVec')
    u.raw('} // verus!')
    u.raw(v_dense.SPEC)
    u.raw('verus! {\npub open spec fn rww(n: int) -> int { ceil_div(n, 64) }\npub open spec fn pad(n: int) -> int { (64 - n % 64) % 64 }\npub proof fn lemma_pad' + v_sparse.SPEC.split('pub proof fn lemma_pad')[1], label='rww / pad / lemma_pad (V-SPARSE)')
    u.raw(SPEC)
    u.trust('DenseBinaryMatrix::get contract (proved in V-DENSE); BinaryOctetVec::new stores its arguments (2-line constructor with a length assert); usize::div_ceil')
    u.raw('verus! {')
    u.raw('''
impl BinaryOctetVec {
    pub const WORD_WIDTH: usize = 64;
    #[verifier::external_body]
    pub fn new(elements: Vec<u64>, length: usize) -> (r: BinaryOctetVec)
        requires elements@.len() == rww(length as int),
        ensures r.elements == elements, r.length == length,
    { unimplemented!() }
    pub fn select_mask(bit: usize) -> (r: u64) requires bit < 64, ensures r == 1u64 << (bit as u64) { 1u64 << (bit as u64) }
}
impl DenseBinaryMatrix {
    #[verifier::external_body]
    fn get(&self, i: usize, j: usize) -> (r: Octet)
        requires dm_wf(*self), in_range(*self, i as int, j as int),
        ensures r.value == (if cell(*self, i as int, j as int) { 1u8 } else { 0u8 }),
    { unimplemented!() }
''', label='callee contracts')
    N = '(self.width as int - start_col as int)'
    u.fn('src/matrix.rs', 'get_sub_row_as_octets', impl='impl BinaryMatrix for DenseBinaryMatrix', ret='r', rules=['D10'],
         requires=['dm_wf(*self)', 'row < self.height', 'start_col <= self.width'],
         ensures=['r.length as int == %s' % N, 'subrow_ok(r.elements@, *self, row as int, start_col as int)'],
         resubst=[(r'let mut result = vec!\[0; ', 'let mut result: Vec<u64> = vec![0u64; ', 'type-annotation'),
                  (r'result\[word\] \|= ([^;]+);', r'result.set(word, result[word] | \1);', 'S8-index-op-assign'),
                  (r'let mut bit = 0;', 'let mut bit: usize = 0;', 'type-annotation')],
         prepend=('let ghost n = %s; let ghost len = rww(n);\n'
                  'proof { lemma_ceil_div_exact(n, 64); if n >= 1 { lemma_pad(n); } else { assert(rww(0) == 0); lemma_small_mod(0, 64); lemma_mod_self_0(64); } }' % N),
         loops={0: {'spec': ('invariant dm_wf(*self), row < self.height, start_col <= self.width, verif_lo == start_col, start_col <= verif_k, verif_k <= self.width, n == %s, len == rww(n), result@.len() == len,'
                             ' (n >= 1 ==> pad(n) + n == 64 * len && 0 <= pad(n) < 64), (n == 0 ==> len == 0), 0 <= word <= len, bit < 64,'
                             ' 64 * word as int + bit as int == 64 * len - (self.width as int - verif_k as int),'
                             ' forall |g: int| 0 <= g < 64 * len ==> #[trigger] gbit(result@, g) == (g >= 64 * word as int + bit as int && cell(*self, row as int, start_col as int + (g - pad(n)))),'
                             ' decreases verif_k,' % N),
                    'before': 'proof { assert forall |g: int| 0 <= g < 64 * len implies !#[trigger] gbit(result@, g) by { lemma_gpos(len, g); lemma_zero_bit((g % 64) as u64); } }',
                    'body_top': 'let ghost pre = result@; let ghost g0 = 64 * word as int + bit as int - 1;\nproof { lemma_gpos(len, g0); }',
                    'body_bottom': ('proof { assert(g0 == 64 * word as int + bit as int); assert(g0 - pad(n) == col as int - start_col as int);'
                                    ' assert forall |g: int| 0 <= g < 64 * len implies #[trigger] gbit(result@, g) == (g >= g0 && cell(*self, row as int, start_col as int + (g - pad(n)))) by {'
                                    '   lemma_gpos(len, g); if g / 64 == word as int { lemma_set_bit(pre[word as int], bit as u64, (g % 64) as u64); } else { assert(result@[g / 64] == pre[g / 64]); }'
                                    '   if g == g0 { } else { assert(gbit(pre, g) == (g >= g0 + 1 && cell(*self, row as int, start_col as int + (g - pad(n))))); } } }')}},
         append=None)
    u.raw('}')
    u.raw('} // verus!')
    return u
