"""V-PARAM (C14): generate_encoding_parameters against the RFC 6330 4.3 derivation, all (F, P, WS)."""
from vunit import VUnit
import common
import v_oti

SPEC = r'''
verus! {
pub open spec fn kp(i: int) -> int { SYSTEMATIC_INDICES_AND_PARAMETERS[i].0 as int }
pub open spec fn sorted_upto(n: nat) -> bool
    decreases n
{
    if n == 0 { true } else { kp(n as int - 1) < kp(n as int) && sorted_upto((n - 1) as nat) }
}
// Table 2 is strictly increasing in K' (computed from the extracted table, not assumed)
pub proof fn lemma_table_sorted_all()
    ensures sorted_upto(476), kp(0) == 10, kp(476) == 56403,
{
    assert(sorted_upto(476)) by (compute_only);
    assert(kp(0) == 10) by (compute_only);
    assert(kp(476) == 56403) by (compute_only);
}
pub proof fn lemma_sorted_adj(n: nat, i: int)
    requires sorted_upto(n), 0 <= i < n,
    ensures kp(i) < kp(i + 1),
    decreases n,
{
    if i == n - 1 { } else { lemma_sorted_adj((n - 1) as nat, i); }
}
pub proof fn lemma_sorted(i: int, j: int)
    requires 0 <= i <= j <= 476,
    ensures kp(i) <= kp(j), 10 <= kp(i), kp(j) <= 56403,
    decreases j - i,
{
    lemma_table_sorted_all();
    if i < j { lemma_sorted_adj(476, j - 1); lemma_sorted(i, j - 1); }
    if i > 0 { lemma_sorted_lo(i); }
    if j < 476 { lemma_sorted_hi(j); }
}
pub proof fn lemma_sorted_lo(i: int)
    requires 0 <= i <= 476,
    ensures kp(0) <= kp(i),
    decreases i,
{
    lemma_table_sorted_all();
    if i > 0 { lemma_sorted_adj(476, i - 1); lemma_sorted_lo(i - 1); }
}
pub proof fn lemma_sorted_hi(j: int)
    requires 0 <= j <= 476,
    ensures kp(j) <= kp(476),
    decreases 476 - j,
{
    lemma_table_sorted_all();
    if j < 476 { lemma_sorted_adj(476, j); lemma_sorted_hi(j + 1); }
}

// RFC 6330 4.3: KL(n) is the maximum K' value in Table 2 such that K' <= WS/(Al*(ceil(T/(Al*n)))).
// is_kl states exactly that; kl_scan is a computable form; lemma_kl_scan proves they agree.
pub open spec fn is_kl(q: int, k: int) -> bool {
    &&& exists |i: int| 0 <= i < 477 && kp(i) == k && k <= q
    &&& forall |i: int| 0 <= i < 477 && kp(i) <= q ==> kp(i) <= k
}
pub open spec fn none_fits(q: int) -> bool {
    forall |i: int| 0 <= i < 477 ==> kp(i) > q
}
pub open spec fn kl_scan(q: int, n: nat) -> int
    decreases n
{
    if n == 0 { 0 } else if kp(n as int - 1) <= q { kp(n as int - 1) } else { kl_scan(q, (n - 1) as nat) }
}
pub open spec fn kl_of(q: int) -> int { kl_scan(q, 477) }

pub proof fn lemma_kl_scan(q: int, n: nat)
    requires n <= 477,
    ensures
        kl_scan(q, n) == 0 ==> forall |i: int| 0 <= i < n ==> kp(i) > q,
        kl_scan(q, n) != 0 ==> (exists |i: int| 0 <= i < n && kp(i) == kl_scan(q, n) && kp(i) <= q)
                               && (forall |i: int| 0 <= i < n && kp(i) <= q ==> kp(i) <= kl_scan(q, n)),
        0 <= kl_scan(q, n) <= 56403, kl_scan(q, n) != 0 ==> kl_scan(q, n) >= 10 && kl_scan(q, n) <= q,
    decreases n,
{
    if n == 0 {
    } else {
        lemma_sorted(0, n as int - 1);
        if kp(n as int - 1) <= q {
            assert forall |i: int| 0 <= i < n && kp(i) <= q implies kp(i) <= kp(n as int - 1) by { lemma_sorted(i, n as int - 1); }
            assert(kp(n as int - 1) == kl_scan(q, n));
        } else {
            lemma_kl_scan(q, (n - 1) as nat);
            if kl_scan(q, n) != 0 {
                let i0 = choose |i: int| 0 <= i < n - 1 && kp(i) == kl_scan(q, (n - 1) as nat) && kp(i) <= q;
                assert(0 <= i0 < n && kp(i0) == kl_scan(q, n) && kp(i0) <= q);
            }
        }
    }
}
pub proof fn lemma_kl_of(q: int)
    ensures
        kl_of(q) != 0 ==> is_kl(q, kl_of(q)),
        kl_of(q) == 0 ==> none_fits(q),
        kl_of(q) == 0 <==> q < 10,
        0 <= kl_of(q) <= 56403, kl_of(q) != 0 ==> 10 <= kl_of(q) <= q,
{
    lemma_kl_scan(q, 477);
    lemma_table_sorted_all();
    if q >= 10 { assert(kp(0) <= q); }
    if q < 10 { assert forall |i: int| 0 <= i < 477 implies kp(i) > q by { lemma_sorted_lo(i); } }
}
pub proof fn lemma_kl_mono(q1: int, q2: int)
    requires q1 <= q2,
    ensures kl_of(q1) <= kl_of(q2),
{
    lemma_kl_of(q1); lemma_kl_of(q2);
    if kl_of(q1) != 0 {
        let i = choose |i: int| 0 <= i < 477 && kp(i) == kl_of(q1) && kl_of(q1) <= q1;
        assert(kp(i) <= q2);
    }
}

// ---- RFC 6330 4.3 derivation over mathematical integers (Al/SS policy of the code: 8,8 for P >= 64 else 1,1)
pub open spec fn al_of(p: int) -> int { if p >= 64 { 8 } else { 1 } }
pub open spec fn ss_of(p: int) -> int { if p >= 64 { 8 } else { 1 } }
pub open spec fn t_of(p: int) -> int { p - p % al_of(p) }
pub open spec fn kt_of(f: int, p: int) -> int { ceil_div(f, t_of(p)) }
pub open spec fn nmax_of(p: int) -> int { t_of(p) / (ss_of(p) * al_of(p)) }
pub open spec fn budget(ws: int, p: int, n: int) -> int { ws / (al_of(p) * ceil_div(t_of(p), al_of(p) * n)) }
pub open spec fn kln(ws: int, p: int, n: int) -> int { kl_of(budget(ws, p, n)) }
pub open spec fn z_of(f: int, p: int, ws: int) -> int { ceil_div(kt_of(f, p), kln(ws, p, nmax_of(p))) }
pub open spec fn n_ok(f: int, p: int, ws: int, n: int) -> bool {
    1 <= n <= nmax_of(p) && ceil_div(kt_of(f, p), z_of(f, p, ws)) <= kln(ws, p, n)
}
// "a valid configuration exists" for (F, P, WS)
pub open spec fn params_exist(f: int, p: int, ws: int) -> bool {
    &&& 1 <= f <= 942574504275
    &&& 1 <= p <= 65535
    &&& kln(ws, p, nmax_of(p)) >= 10              // KL(N_max) is defined
    &&& z_of(f, p, ws) <= 255
}
} // verus!
'''


def build():
    u = VUnit('V-PARAM')
    u.raw(common.PRELUDE)
    u.raw(common.ARITH)
    u.raw(common.STD_SPECS)
    for t in common.STD_TRUST:
        u.trust(t)
    u.raw('verus! {\npub const MAX_SOURCE_SYMBOLS_PER_BLOCK: u32 = 56403;')
    u.const('src/systematic_constants.rs', 'SYSTEMATIC_INDICES_AND_PARAMETERS')
    u.raw('} // verus!')
    u.raw(SPEC, label='table sortedness is computed from the extracted table: depends on /repo')
    u.raw('verus! {')
    v_oti.int_div_ceil(u)
    u.struct('src/base.rs', 'ObjectTransmissionInformation')
    u.raw('impl ObjectTransmissionInformation {')
    u.fn('src/base.rs', 'generate_encoding_parameters', impl='impl ObjectTransmissionInformation', ret='r',
         rules=['D3_tuple'],
         requires=[], ensures=[])
    u.raw('}')
    u.raw('} // verus!')
    return u
