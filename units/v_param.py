"""V-PARAM (C14): generate_encoding_parameters against the RFC 6330 4.3 derivation, all (F, P, WS)."""
from vunit import VUnit
import common
import v_oti

SPEC = r'''
verus! {
pub open spec fn kp(i: int) -> int { SYSTEMATIC_INDICES_AND_PARAMETERS[i].0 as int }
pub open spec fn sorted_upto(n: nat) -> bool
    decreases n
{
    if n == 0 { true } else { kp(n as int - 1) < kp(n as int) && sorted_upto((n - 1) as nat) }
}
// Table 2 is strictly increasing in K' (computed from the extracted table, not assumed)
pub proof fn lemma_table_sorted_all()
    ensures sorted_upto(476), kp(0) == 10, kp(476) == 56403,
{
    assert(sorted_upto(476)) by (compute_only);
    assert(kp(0) == 10) by (compute_only);
    assert(kp(476) == 56403) by (compute_only);
}
pub proof fn lemma_sorted_adj(n: nat, i: int)
    requires sorted_upto(n), 0 <= i < n,
    ensures kp(i) < kp(i + 1),
    decreases n,
{
    if i == n - 1 { } else { lemma_sorted_adj((n - 1) as nat, i); }
}
pub proof fn lemma_sorted(i: int, j: int)
    requires 0 <= i <= j <= 476,
    ensures kp(i) <= kp(j), 10 <= kp(i), kp(j) <= 56403,
    decreases j - i,
{
    lemma_table_sorted_all();
    if i < j { lemma_sorted_adj(476, j - 1); lemma_sorted(i, j - 1); }
    if i > 0 { lemma_sorted_lo(i); }
    if j < 476 { lemma_sorted_hi(j); }
}
pub proof fn lemma_sorted_lo(i: int)
    requires 0 <= i <= 476,
    ensures kp(0) <= kp(i),
    decreases i,
{
    lemma_table_sorted_all();
    if i > 0 { lemma_sorted_adj(476, i - 1); lemma_sorted_lo(i - 1); }
}
pub proof fn lemma_sorted_hi(j: int)
    requires 0 <= j <= 476,
    ensures kp(j) <= kp(476),
    decreases 476 - j,
{
    lemma_table_sorted_all();
    if j < 476 { lemma_sorted_adj(476, j); lemma_sorted_hi(j + 1); }
}

// RFC 6330 4.3: KL(n) is the maximum K' value in Table 2 such that K' <= WS/(Al*(ceil(T/(Al*n)))).
// is_kl states exactly that; kl_scan is a computable form; lemma_kl_scan proves they agree.
pub open spec fn is_kl(q: int, k: int) -> bool {
    &&& exists |i: int| 0 <= i < 477 && #[trigger] kp(i) == k && k <= q
    &&& forall |i: int| 0 <= i < 477 && #[trigger] kp(i) <= q ==> kp(i) <= k
}
pub open spec fn none_fits(q: int) -> bool {
    forall |i: int| 0 <= i < 477 ==> #[trigger] kp(i) > q
}
pub open spec fn kl_scan(q: int, n: nat) -> int
    decreases n
{
    if n == 0 { 0 } else if kp(n as int - 1) <= q { kp(n as int - 1) } else { kl_scan(q, (n - 1) as nat) }
}
pub open spec fn kl_of(q: int) -> int { kl_scan(q, 477) }

pub proof fn lemma_kl_scan(q: int, n: nat)
    requires n <= 477,
    ensures
        kl_scan(q, n) == 0 ==> forall |i: int| 0 <= i < n ==> #[trigger] kp(i) > q,
        kl_scan(q, n) != 0 ==> (exists |i: int| 0 <= i < n && #[trigger] kp(i) == kl_scan(q, n) && kp(i) <= q)
                               && (forall |i: int| 0 <= i < n && #[trigger] kp(i) <= q ==> kp(i) <= kl_scan(q, n)),
        0 <= kl_scan(q, n) <= 56403, kl_scan(q, n) != 0 ==> kl_scan(q, n) >= 10 && kl_scan(q, n) <= q,
    decreases n,
{
    if n == 0 {
    } else {
        lemma_sorted(0, n as int - 1);
        if kp(n as int - 1) <= q {
            assert forall |i: int| 0 <= i < n && #[trigger] kp(i) <= q implies kp(i) <= kp(n as int - 1) by { lemma_sorted(i, n as int - 1); }
            assert(kp(n as int - 1) == kl_scan(q, n));
        } else {
            lemma_kl_scan(q, (n - 1) as nat);
            if kl_scan(q, n) != 0 {
                let i0 = choose |i: int| 0 <= i < n - 1 && #[trigger] kp(i) == kl_scan(q, (n - 1) as nat) && kp(i) <= q;
                assert(0 <= i0 < n && kp(i0) == kl_scan(q, n) && kp(i0) <= q);
            }
        }
    }
}
pub proof fn lemma_kl_of(q: int)
    ensures
        kl_of(q) != 0 ==> is_kl(q, kl_of(q)),
        kl_of(q) == 0 ==> none_fits(q),
        kl_of(q) == 0 <==> q < 10,
        0 <= kl_of(q) <= 56403, kl_of(q) != 0 ==> 10 <= kl_of(q) <= q,
{
    lemma_kl_scan(q, 477);
    lemma_table_sorted_all();
    if q >= 10 { assert(kp(0) <= q); }
    if q < 10 { assert forall |i: int| 0 <= i < 477 implies #[trigger] kp(i) > q by { lemma_sorted_lo(i); } }
}
pub proof fn lemma_kl_mono(q1: int, q2: int)
    requires q1 <= q2,
    ensures kl_of(q1) <= kl_of(q2),
{
    lemma_kl_of(q1); lemma_kl_of(q2);
    if kl_of(q1) != 0 {
        let i = choose |i: int| 0 <= i < 477 && #[trigger] kp(i) == kl_of(q1) && kl_of(q1) <= q1;
        assert(kp(i) <= q2);
    }
}

// ---- RFC 6330 4.3 derivation over mathematical integers (Al/SS policy of the code: 8,8 for P >= 64 else 1,1)
pub open spec fn al_of(p: int) -> int { if p >= 64 { 8 } else { 1 } }
pub open spec fn ss_of(p: int) -> int { if p >= 64 { 8 } else { 1 } }
pub open spec fn t_of(p: int) -> int { p - p % al_of(p) }
pub open spec fn kt_of(f: int, p: int) -> int { ceil_div(f, t_of(p)) }
pub open spec fn nmax_of(p: int) -> int { t_of(p) / (ss_of(p) * al_of(p)) }
pub open spec fn budget(ws: int, p: int, n: int) -> int { ws / (al_of(p) * ceil_div(t_of(p), al_of(p) * n)) }
pub open spec fn kln(ws: int, p: int, n: int) -> int { kl_of(budget(ws, p, n)) }
pub open spec fn z_of(f: int, p: int, ws: int) -> int { ceil_div(kt_of(f, p), kln(ws, p, nmax_of(p))) }
pub open spec fn n_ok(f: int, p: int, ws: int, n: int) -> bool {
    1 <= n <= nmax_of(p) && ceil_div(kt_of(f, p), z_of(f, p, ws)) <= kln(ws, p, n)
}
// "a valid configuration exists" for (F, P, WS)
pub open spec fn params_exist(f: int, p: int, ws: int) -> bool {
    &&& 1 <= f <= 942574504275
    &&& 1 <= p <= 65535
    &&& kln(ws, p, nmax_of(p)) >= 10              // KL(N_max) is defined
    &&& z_of(f, p, ws) <= 255
}

pub proof fn lemma_t_of(p: int)
    requires 1 <= p <= 65535,
    ensures 1 <= t_of(p) <= p, t_of(p) % al_of(p) == 0, nmax_of(p) >= 1, nmax_of(p) <= 65535,
        p >= 64 ==> t_of(p) >= 64,
{
    if p >= 64 {
        lemma_fundamental_div_mod(p, 8);
        assert(t_of(p) == 8 * (p / 8));
        assert(p / 8 >= 8) by { lemma_div_is_ordered(64, p, 8); }
        lemma_mod_multiples_basic(p / 8, 8);
        assert((8 * (p / 8)) % 8 == 0) by { lemma_mul_is_commutative(8, p / 8); }
        assert(t_of(p) / 64 >= 1) by { lemma_div_is_ordered(64, t_of(p), 64); }
        assert(t_of(p) / 64 <= t_of(p)) by { lemma_div_is_ordered_by_denominator(t_of(p), 1, 64); lemma_div_basics(t_of(p)); }
        assert(ss_of(p) * al_of(p) == 64);
    } else {
        lemma_div_basics(p);
        assert(p % 1 == 0) by { lemma_fundamental_div_mod(p, 1); lemma_mod_bound(p, 1); }
        assert(ss_of(p) * al_of(p) == 1);
        assert(t_of(p) == p);
    }
}
pub proof fn lemma_budget_x(p: int, n: int)
    requires 1 <= p <= 65535, 1 <= n <= nmax_of(p),
    ensures 1 <= al_of(p) * n <= 8 * 65535, 1 <= ceil_div(t_of(p), al_of(p) * n) <= 65535,
        1 <= al_of(p) * ceil_div(t_of(p), al_of(p) * n) <= 8 * 65535,
{
    lemma_t_of(p);
    let d = al_of(p) * n;
    assert(1 <= d <= 8 * 65535) by (nonlinear_arith) requires d == al_of(p) * n, 1 <= al_of(p) <= 8, 1 <= n <= 65535;
    lemma_ceil_div_exact(t_of(p), d);
    let x = ceil_div(t_of(p), d);
    assert(x >= 1) by (nonlinear_arith) requires x * d >= t_of(p), t_of(p) >= 1, d >= 1, x >= 0;
    lemma_ceil_div_le(t_of(p), d, t_of(p));
    assert(t_of(p) <= d * t_of(p)) by (nonlinear_arith) requires d >= 1, t_of(p) >= 0;
    assert(1 <= al_of(p) * x <= 8 * 65535) by (nonlinear_arith) requires 1 <= al_of(p) <= 8, 1 <= x <= 65535;
}
// consequences of "a valid configuration exists"
pub proof fn lemma_params(f: int, p: int, ws: int)
    requires params_exist(f, p, ws),
    ensures
        1 <= kt_of(f, p) <= 255 * 56403,
        10 <= kln(ws, p, nmax_of(p)) <= 56403,
        1 <= z_of(f, p, ws) <= 255,
        n_ok(f, p, ws, nmax_of(p)),                       // N_max always qualifies, so the search for N succeeds
        ceil_div(kt_of(f, p), z_of(f, p, ws)) <= 56403,
        ceil_div(kt_of(f, p), z_of(f, p, ws)) >= 1,
{
    lemma_t_of(p);
    let t = t_of(p); let kt = kt_of(f, p); let kl = kln(ws, p, nmax_of(p)); let z = z_of(f, p, ws);
    lemma_kl_of(budget(ws, p, nmax_of(p)));
    lemma_ceil_div_exact(f, t);
    assert(kt >= 1) by (nonlinear_arith) requires kt * t >= f, f >= 1, t >= 1, kt >= 0;
    lemma_ceil_div_exact(kt, kl);
    assert(z >= 1) by (nonlinear_arith) requires z * kl >= kt, kt >= 1, kl >= 1, z >= 0;
    assert(kt <= z * kl);
    assert(z * kl <= 255 * 56403) by (nonlinear_arith) requires 1 <= z <= 255, 1 <= kl <= 56403;
    assert(z * kl == kl * z) by (nonlinear_arith);
    lemma_ceil_div_le(kt, z, kl);
    lemma_ceil_div_exact(kt, z);
    let kz = ceil_div(kt, z);
    assert(kz >= 1) by (nonlinear_arith) requires kz * z >= kt, kt >= 1, z >= 1, kz >= 0;
}
// "A larger memory budget never yields more source blocks"
pub proof fn lemma_ceil_div_antimono(a: int, b1: int, b2: int)
    requires a >= 0, 1 <= b1 <= b2,
    ensures ceil_div(a, b2) <= ceil_div(a, b1),
{
    lemma_ceil_div_exact(a, b1);
    let k = ceil_div(a, b1);
    assert(a <= b2 * k) by (nonlinear_arith) requires k * b1 >= a, b1 <= b2, k >= 0;
    lemma_ceil_div_le(a, b2, k);
}
pub proof fn lemma_budget_monotone(f: int, p: int, ws1: int, ws2: int)
    requires params_exist(f, p, ws1), 0 <= ws1 <= ws2,
    ensures kln(ws1, p, nmax_of(p)) <= kln(ws2, p, nmax_of(p)), z_of(f, p, ws2) <= z_of(f, p, ws1),
{
    lemma_t_of(p);
    lemma_params(f, p, ws1);
    lemma_budget_x(p, nmax_of(p));
    let d = al_of(p) * ceil_div(t_of(p), al_of(p) * nmax_of(p));
    lemma_div_is_ordered(ws1, ws2, d);
    lemma_kl_mono(budget(ws1, p, nmax_of(p)), budget(ws2, p, nmax_of(p)));
    lemma_ceil_div_antimono(kt_of(f, p), kln(ws1, p, nmax_of(p)), kln(ws2, p, nmax_of(p)));
}
} // verus!
'''


def build():
    u = VUnit('V-PARAM')
    u.raw(common.PRELUDE)
    u.raw(common.ARITH)
    u.raw(common.STD_SPECS)
    for t in common.STD_TRUST:
        u.trust(t)
    u.raw('verus! {\npub const MAX_SOURCE_SYMBOLS_PER_BLOCK: u32 = 56403;')
    u.const('src/systematic_constants.rs', 'SYSTEMATIC_INDICES_AND_PARAMETERS')
    u.raw('} // verus!')
    u.raw(SPEC, label='table sortedness is computed from the extracted table: depends on /repo')
    u.raw('verus! {')
    v_oti.int_div_ceil(u)
    u.struct('src/base.rs', 'ObjectTransmissionInformation')
    u.raw('impl ObjectTransmissionInformation {')
    F, P, WS = 'transfer_length as int', 'max_packet_size as int', 'decoder_memory_requirement as int'
    ctx = ('alignment as int == al_of(%s), sub_symbol_size as int == ss_of(%s), symbol_size as int == t_of(%s), symbol_size >= 1,'
           ' params_exist(%s, %s, %s), n_max as int == nmax_of(%s), n_max >= 1, n_max <= 65535,' % (P, P, P, F, P, WS, P))
    u.fn('src/base.rs', 'generate_encoding_parameters', impl='impl ObjectTransmissionInformation', ret='r', isolate_loops=True,
         rules=['D3_tuple', 'D6', 'A1'],
         requires=['params_exist(%s, %s, %s)' % (F, P, WS)],
         ensures=[
             'r.transfer_length == transfer_length',
             'r.symbol_alignment as int == al_of(%s)' % P,
             'r.symbol_size as int == t_of(%s)' % P,
             'r.num_source_blocks as int == z_of(%s, %s, %s)' % (F, P, WS),
             'n_ok(%s, %s, %s, r.num_sub_blocks as int)' % (F, P, WS),
             'forall |m: int| 1 <= m < r.num_sub_blocks as int ==> !n_ok(%s, %s, %s, m)' % (F, P, WS),
             '(r.symbol_size as int) % (r.symbol_alignment as int) == 0 && r.symbol_size >= 1 && r.num_source_blocks >= 1',
             'ceil_div(ceil_div(r.transfer_length as int, r.symbol_size as int), r.num_source_blocks as int) <= 56403',
         ],
         subst=[
             ('let kl = |n: u32| -> u32 {',
              'let kl = |n: u32| -> (kr: u32)\n requires 1 <= n <= n_max,\n ensures kr as int == kln(%s, %s, n as int),\n {' % (WS, P),
              'closure-contract'),
         ],
         inserts=[
             ('let symbol_size = max_packet_size', 'before', 'proof { lemma_t_of(%s); assert(alignment as int == al_of(%s) && sub_symbol_size as int == ss_of(%s)); }' % (P, P, P)),
             ('let n_max = symbol_size as u32', 'before',
              'proof { if max_packet_size >= 64 { assert(sub_symbol_size == 8 && alignment == 8); assert(sub_symbol_size * alignment == 64) by (nonlinear_arith) requires sub_symbol_size == 8, alignment == 8; }'
              ' else { assert(sub_symbol_size == 1 && alignment == 1); assert(sub_symbol_size * alignment == 1) by (nonlinear_arith) requires sub_symbol_size == 1, alignment == 1; } }'),
             ('let kt = int_div_ceil', 'before', 'proof { lemma_params(%s, %s, %s); }' % (F, P, WS)),
             ('let x = int_div_ceil', 'before', 'proof { lemma_budget_x(%s, n as int); }' % P),
             ('let num_source_blocks = int_div_ceil', 'before', 'proof { lemma_params(%s, %s, %s); }' % (F, P, WS)),
             ('let mut n = 1;', 'before',
              'proof { lemma_params(%s, %s, %s); assert(num_source_blocks as int == z_of(%s, %s, %s)); }' % (F, P, WS, F, P, WS)),
         ],
         loops={
             0: {'spec': 'invariant verif_k <= 477, kl_scan(budget(%s, %s, n as int), 477) == kl_scan(budget(%s, %s, n as int), verif_k as nat), 1 <= n <= n_max, %s\n decreases verif_k,' % (WS, P, WS, P, ctx)},
             1: {'spec': ('invariant_except_break 1 <= i <= n_max + 1, (i == 1 ==> n == 1), (i > 1 ==> n == i - 1),\n'
                          ' invariant forall |k: u32| 1 <= k <= n_max ==> #[trigger] kl.requires((k,)),'
                          ' forall |k: u32, kr: u32| kl.ensures((k,), kr) ==> kr as int == kln(%s, %s, k as int),'
                          ' kt as int == kt_of(%s, %s), num_source_blocks as int == z_of(%s, %s, %s), 1 <= num_source_blocks <= 255, %s'
                          ' forall |m: int| 1 <= m < i as int ==> !n_ok(%s, %s, %s, m), n_ok(%s, %s, %s, n_max as int),\n'
                          ' ensures 1 <= n <= n_max, n_ok(%s, %s, %s, n as int), forall |m: int| 1 <= m < n as int ==> !n_ok(%s, %s, %s, m),\n'
                          ' decreases n_max + 1 - i,') % (WS, P, F, P, F, P, WS, ctx, F, P, WS, F, P, WS, F, P, WS, F, P, WS),
                 'body_top': 'proof { lemma_params(%s, %s, %s); }' % (F, P, WS)},
         })
    u.raw('}')
    u.raw('} // verus!')
    return u
