"""V-REBUILD (C01, C04): SourceBlockDecoder::rebuild_source_symbol_into writes into dest the xor of the intermediate symbols at the
RFC 6330 5.3.5.3 index walk of Tuple[K', X] -- the same Enc[] function the encoder's enc_into computes (V-ENCINTO) -- for ALL
tuples, (W, P, P1) and symbol sizes.  The real function passes a `|i| { if first { copy } else { add_assign } }` closure to
enc_indices; rule I1 beta-reduces that call (the callee's body is taken from src/constraint_matrix.rs on this run)."""
from vunit import VUnit
import common
import v_slab, v_encinto


def build():
    u = VUnit('V-REBUILD')
    u.raw(common.PRELUDE)
    u.raw(common.ARITH)
    u.raw('verus! {')
    u.struct('src/octet.rs', 'Octet')
    u.struct('src/symbol_slab.rs', 'SymbolSlab')
    u.struct('src/operation_vector.rs', 'SymbolOps', kind='enum')
    u.struct('src/decoder.rs', 'EncodingParameters', prefix='#[derive(Clone, Copy)]\n')
    u.raw('} // verus!')
    u.raw(v_slab.SPEC)
    u.raw(v_slab.KERNELS, label='kernel contracts')
    u.raw(v_encinto.SPEC)
    u.raw(v_encinto.ACC_LEMMAS, label='xor accumulation lemmas (V-ENCINTO)')
    u.trust('octets::add_assign element-wise contract (K-KERN); SymbolSlab::get contract (proved in V-SLAB); intermediate_tuple ranges (proved in V-RNG)')
    u.trust('rule I1: enc_indices(args, |i| { B }) beta-reduced: callee body from src/constraint_matrix.rs with `f(E);` replaced by `{ let i = E; B }`')
    u.raw('verus! {')
    u.raw('''
pub uninterp spec fn tuple_of(isi: int, w: int, j: int, p1: int) -> (u32, u32, u32, u32, u32, u32);   // Tuple[K', X]
pub open spec fn tuple_ok(t: (u32, u32, u32, u32, u32, u32), w: int, p1: int) -> bool {
    1 <= t.0 && 1 <= t.1 && (t.1 as int) < w && (t.2 as int) < w && (t.3 == 2 || t.3 == 3) && 1 <= t.4 && (t.4 as int) < p1 && (t.5 as int) < p1
}
#[verifier::external_body]
pub fn intermediate_tuple(internal_symbol_id: u32, lt_symbols: u32, systematic_index: u32, p1: u32) -> (r: (u32, u32, u32, u32, u32, u32))
    requires lt_symbols >= 17, systematic_index <= 1000, p1 >= 11,     // exactly the precondition under which V-RNG proves it
    ensures r == tuple_of(internal_symbol_id as int, lt_symbols as int, systematic_index as int, p1 as int), tuple_ok(r, lt_symbols as int, p1 as int),
{ unimplemented!() }
impl SymbolSlab {
    #[verifier::external_body]
    pub fn get(&self, i: usize) -> (r: &[u8])
        requires slab_wf(*self), (i as int) < self.count,
        ensures r@ == view(*self)[i as int], r@.len() == self.symbol_size,
    { unimplemented!() }
}
pub struct SourceBlockDecoder { _p: () }
impl SourceBlockDecoder {
''', label='callee contracts: intermediate_tuple (value + ranges: V-RNG), SymbolSlab::get (V-SLAB); the method does not read self')
    VIEW = 'view(*intermediate_symbols)'
    COMMON = ('slab_wf(*intermediate_symbols), 1 <= p && p <= p1, (w as int) + (p1 as int) < 0x8000_0000, w >= 2,'
              ' intermediate_symbols.count as int >= w as int + p as int, dest@.len() == intermediate_symbols.symbol_size,'
              ' 1 <= a && a < w, 1 <= a1 && a1 < p1, 1 <= d, d1 == 2 || d1 == 3, b0 < w as int, b10 < p1 as int, 0 <= b0, 0 <= b10, !first,')
    loops = v_encinto.walk_loops(COMMON, 'dest@ == acc(%s, idx, verif_j as nat)' % VIEW, 'dest@ == acc(%s, idx, (d as int + verif_s as int) as nat)' % VIEW,
                                 lambda x: 'lemma_acc_push(%s, oi, %s);' % (VIEW, x))
    loops[0]['before'] = 'let ghost mut idx: Seq<int> = seq![b0]; let ghost mut ks: Seq<int> = Seq::empty(); let ghost mut gk: int = 0;'
    loops[2]['after'] = 'proof { ' + v_encinto.final_steps('lt_symbols as int', 'pi_symbols as int', 'p1 as int') + ' }'
    W, P, P1 = 'params.lt_symbols as int', 'params.pi_symbols as int', 'params.p1 as int'
    u.fn('src/decoder.rs', 'rebuild_source_symbol_into', impl='impl SourceBlockDecoder', ret='r', rules=['A1'],
         inline=[('src/constraint_matrix.rs', 'enc_indices')],
         attrs='#[verifier::exec_allows_no_decreases_clause]', isolate_loops=True,
         requires=['slab_wf(*intermediate_symbols)', 'old(dest)@.len() == intermediate_symbols.symbol_size',
                   '1 <= params.pi_symbols && params.pi_symbols <= params.p1', '(%s) + (%s) < 0x8000_0000' % (W, P1), 'params.lt_symbols >= 17', 'params.p1 >= 11', 'params.sys_index <= 1000',
                   'intermediate_symbols.count as int >= (%s) + (%s)' % (W, P)],
         ensures=['exists |idx: Seq<int>, ks: Seq<int>| #[trigger] enc_idx_ok(idx, ks, tuple_of(source_symbol_id as int, %s, params.sys_index as int, %s), %s, %s, %s)'
                  ' && final(dest)@ == acc(view(*intermediate_symbols), idx, (tuple_of(source_symbol_id as int, %s, params.sys_index as int, %s).0'
                  ' + tuple_of(source_symbol_id as int, %s, params.sys_index as int, %s).3) as nat)' % (W, P1, W, P, P1, W, P1, W, P1)],
         resubst=[(r'for _ in ', lambda m, names=iter(['verif_j', 'verif_s', 'verif_x2', 'verif_x3']): 'for %s in ' % next(names), 'name-loop-var')],
         loops=loops,
         subst=[('let (d, a, mut b, d1, a1, mut b1) = source_tuple;',
                 'let (d, a, mut b, d1, a1, mut b1) = source_tuple;\nlet ghost b0 = b as int; let ghost b10 = b1 as int; proof { lemma_orbit_zero(b0, a as int, w as int); lemma_orbit_zero(b10, a1 as int, p1 as int); }', 'ghost-entry-state')],
         )
    u.raw('}')
    u.raw('} // verus!')
    return u
