"""V-DENSE (C16): DenseBinaryMatrix against the abstract bit matrix cell(i, j), all heights and widths."""
from vunit import VUnit
import common

SPEC = r'''
verus! {
global size_of usize == 8;
pub const WORD_WIDTH: usize = 64;
pub assume_specification[ usize::div_ceil ](a: usize, b: usize) -> (r: usize)
    requires b != 0,
    ensures r as int == ceil_div(a as int, b as int);

pub open spec fn rw(width: int) -> int { ceil_div(width, 64) }
pub open spec fn bit_of(w: u64, b: int) -> bool { w & (1u64 << (b as u64)) != 0 }
// the abstract matrix: cell (i, j) of a dense matrix
pub open spec fn cell(m: DenseBinaryMatrix, i: int, j: int) -> bool {
    bit_of(m.elements@[i * rw(m.width as int) + j / 64], j % 64)
}
pub open spec fn dm_wf(m: DenseBinaryMatrix) -> bool {
    m.elements@.len() >= m.height as int * rw(m.width as int) && m.elements@.len() <= usize::MAX && m.width <= 0xffff_ffff && m.height <= 0xffff_ffff
}
pub open spec fn in_range(m: DenseBinaryMatrix, i: int, j: int) -> bool { 0 <= i < m.height && 0 <= j < m.width }

pub proof fn lemma_word_index(h: int, w: int, i: int, j: int)
    requires 0 <= i < h, 0 <= j < w,
    ensures 0 <= i * rw(w) + j / 64 < h * rw(w), 0 <= j / 64 < rw(w), 0 <= j % 64 < 64, rw(w) >= 1, i * rw(w) >= 0,
            i * rw(w) + rw(w) <= h * rw(w),
{
    lemma_ceil_div_exact(w, 64);
    let r = rw(w);
    assert(r * 64 >= w);
    assert(j / 64 < r) by {
        lemma_fundamental_div_mod(j, 64);
        if j / 64 >= r { assert(64 * (j / 64) >= 64 * r) by (nonlinear_arith) requires j / 64 >= r; }
    }
    lemma_div_pos_is_pos(j, 64);
    assert(i * r >= 0) by (nonlinear_arith) requires i >= 0, r >= 0;
    assert(i * r + r <= h * r) by (nonlinear_arith) requires i + 1 <= h, r >= 0;
}
// distinct cells live in distinct (word, bit) positions
pub proof fn lemma_cell_distinct(w: int, i1: int, j1: int, i2: int, j2: int)
    requires 0 <= j1 < w, 0 <= j2 < w, 0 <= i1, 0 <= i2, (i1 != i2 || j1 != j2),
    ensures i1 * rw(w) + j1 / 64 != i2 * rw(w) + j2 / 64 || j1 % 64 != j2 % 64,
{
    let r = rw(w);
    lemma_word_index(i1 + 1, w, i1, j1);
    lemma_word_index(i2 + 1, w, i2, j2);
    if i1 == i2 {
        lemma_fundamental_div_mod(j1, 64); lemma_fundamental_div_mod(j2, 64);
    } else if i1 < i2 {
        assert(i1 * r + r <= i2 * r) by (nonlinear_arith) requires i1 + 1 <= i2, r >= 0;
    } else {
        assert(i2 * r + r <= i1 * r) by (nonlinear_arith) requires i2 + 1 <= i1, r >= 0;
    }
}
// bit-level facts
pub proof fn lemma_alloc(h: int, w: int)
    requires h >= 0, w >= 0,
    ensures h * (w + 63) / 64 >= h * rw(w), h * (w + 63) / 64 >= 0,
{
    lemma_fundamental_div_mod(w + 63, 64);
    let q = (w + 63) / 64; let r = (w + 63) % 64;
    lemma_div_pos_is_pos(w + 63, 64);
    assert(h * (w + 63) == 64 * (h * q) + h * r) by (nonlinear_arith) requires w + 63 == 64 * q + r;
    assert(h * r >= 0) by (nonlinear_arith) requires h >= 0, r >= 0;
    assert(h * q >= 0) by (nonlinear_arith) requires h >= 0, q >= 0;
    lemma_div_is_ordered(64 * (h * q), h * (w + 63), 64);
    lemma_div_multiples_vanish(h * q, 64);
}
pub proof fn lemma_set_bit(w: u64, b: u64, c: u64)
    requires b < 64, c < 64,
    ensures bit_of(w | (1u64 << b), c as int) == (if c == b { true } else { bit_of(w, c as int) }),
            bit_of(w & !(1u64 << b), c as int) == (if c == b { false } else { bit_of(w, c as int) }),
{
    assert((w | (1u64 << b)) & (1u64 << c) != 0 <==> (c == b || w & (1u64 << c) != 0)) by (bit_vector) requires b < 64, c < 64;
    assert((w & !(1u64 << b)) & (1u64 << c) != 0 <==> (c != b && w & (1u64 << c) != 0)) by (bit_vector) requires b < 64, c < 64;
}
pub proof fn lemma_xor_bit(a: u64, b: u64, c: u64)
    requires c < 64,
    ensures bit_of(a ^ b, c as int) == (bit_of(a, c as int) != bit_of(b, c as int)),
{
    assert(((a ^ b) & (1u64 << c) != 0) <==> ((a & (1u64 << c) != 0) != (b & (1u64 << c) != 0))) by (bit_vector) requires c < 64;
}
pub proof fn lemma_zero_bit(c: u64)
    requires c < 64,
    ensures !bit_of(0u64, c as int),
{
    assert(0u64 & (1u64 << c) == 0) by (bit_vector);
}
} // verus!
'''


def build():
    u = VUnit('V-DENSE')
    u.raw(common.PRELUDE)
    u.raw(common.ARITH)
    u.raw('verus! {')
    u.struct('src/octet.rs', 'Octet', prefix='#[derive(PartialEq, Eq, Structural)]\n')
    u.raw('''impl Octet {
    pub fn zero() -> (r: Octet) ensures r.value == 0 { Octet { value: 0 } }
    pub fn one() -> (r: Octet) ensures r.value == 1 { Octet { value: 1 } }
}
''', label='Octet::zero/one (real bodies are these literals) and derived PartialEq')
    u.trust('derive(PartialEq) on Octet compares the value field (std derive semantics)')
    u.struct('src/matrix.rs', 'DenseBinaryMatrix')
    u.raw('} // verus!')
    u.raw(SPEC)
    u.trust('assume_specification usize::div_ceil: ceil(a/b) (std documented behaviour)')
    u.raw('verus! {')
    u.raw('impl DenseBinaryMatrix {')
    IMPL = 'impl DenseBinaryMatrix'
    u.fn('src/matrix.rs', 'row_word_width', impl=IMPL, ret='r', requires=['self.width <= 0xffff_ffff'], ensures=['r as int == rw(self.width as int)'])
    u.fn('src/matrix.rs', 'word_offset', impl=IMPL, ret='r', ensures=['r as int == col as int / 64'])
    u.fn('src/matrix.rs', 'bit_position', impl=IMPL, ret='r',
         requires=['dm_wf(*self)', 'row <= 0xffff_ffff', 'col <= 0xffff_ffff'],
         ensures=['r.0 as int == row as int * rw(self.width as int) + col as int / 64', 'r.1 as int == col as int % 64', 'r.1 < 64'],
         prepend='proof { lemma_ceil_div_exact(self.width as int, 64); lemma_div_pos_is_pos(self.width as int, 64); lemma_div_pos_is_pos(col as int, 64);'
                 ' assert(rw(self.width as int) <= 0x1_0000_0000) by { lemma_div_is_ordered_by_denominator(self.width as int, 1, 64); lemma_div_basics(self.width as int); }'
                 ' assert(col as int / 64 <= col as int) by { lemma_div_is_ordered_by_denominator(col as int, 1, 64); lemma_div_basics(col as int); }'
                 ' assert(0 <= row as int * rw(self.width as int) <= 0xffff_ffff * 0x1_0000_0000) by (nonlinear_arith) requires 0 <= row as int <= 0xffff_ffff, 0 <= rw(self.width as int) <= 0x1_0000_0000; }')
    u.fn('src/matrix.rs', 'select_mask', impl=IMPL, ret='r', requires=['bit < 64'], ensures=['r == 1u64 << (bit as u64)'])
    u.fn('src/matrix.rs', 'clear_bit', impl=IMPL, ret='r', requires=['bit < 64'], ensures=['*final(word) == *old(word) & !(1u64 << (bit as u64))'])
    u.fn('src/matrix.rs', 'set_bit', impl=IMPL, ret='r', requires=['bit < 64'], ensures=['*final(word) == *old(word) | (1u64 << (bit as u64))'])
    T = 'impl BinaryMatrix for DenseBinaryMatrix'
    FRAME = 'final(self).height == old(self).height && final(self).width == old(self).width'
    u.fn('src/matrix.rs', 'new', impl=T, ret='r',
         sig_subst=[('_: usize', '_hint: usize')],
         requires=['height <= 0xff_ffff', 'width <= 0xffff'],
         ensures=['dm_wf(r)', 'r.height == height && r.width == width',
                  'forall |i: int, j: int| 0 <= i < height && 0 <= j < width ==> !#[trigger] cell(r, i, j)'],
         inserts=[('let elements = vec![0;', 'before',
                   'proof { assert(height as int * (width as int + 63) <= 0xff_ffff * 0x1_0040) by (nonlinear_arith) requires 0 <= height as int <= 0xff_ffff, 0 <= width as int + 63 <= 0x1_0040; lemma_alloc(height as int, width as int); }'),
                  ('DenseBinaryMatrix {', 'before',
                   'proof { assert forall |i: int, j: int| 0 <= i < height && 0 <= j < width implies !bit_of(#[trigger] elements@[i * rw(width as int) + j / 64], j % 64) by { lemma_word_index(height as int, width as int, i, j); lemma_zero_bit((j % 64) as u64); } }')])
    u.fn('src/matrix.rs', 'get', impl=T, ret='r',
         requires=['dm_wf(*self)', 'in_range(*self, i as int, j as int)'],
         ensures=['r.value == (if cell(*self, i as int, j as int) { 1u8 } else { 0u8 })'],
         prepend='proof { lemma_word_index(self.height as int, self.width as int, i as int, j as int); }')
    u.fn('src/matrix.rs', 'set', impl=T, ret='r',
         requires=['dm_wf(*old(self))', 'in_range(*old(self), i as int, j as int)'],
         ensures=['dm_wf(*final(self))', FRAME,
                  'forall |i2: int, j2: int| in_range(*old(self), i2, j2) ==> #[trigger] cell(*final(self), i2, j2) == (if i2 == i as int && j2 == j as int { value.value != 0 } else { cell(*old(self), i2, j2) })'],
         prepend='proof { lemma_word_index(self.height as int, self.width as int, i as int, j as int); }',
         append="""proof {
    let o = *old(self); let n = *self; let w = o.width as int;
    assert forall |i2: int, j2: int| in_range(o, i2, j2) implies #[trigger] cell(n, i2, j2) == (if i2 == i as int && j2 == j as int { value.value != 0 } else { cell(o, i2, j2) }) by {
        lemma_word_index(o.height as int, w, i2, j2);
        lemma_set_bit(o.elements@[i as int * rw(w) + j as int / 64], (j as int % 64) as u64, (j2 % 64) as u64);
        if i2 != i as int || j2 != j as int { lemma_cell_distinct(w, i as int, j as int, i2, j2); }
    }
}""")
    u.raw('}')
    u.raw('} // verus!')
    return u
