"""V-DENSE (C16): DenseBinaryMatrix against the abstract bit matrix cell(i, j), all heights and widths."""
from vunit import VUnit
import common

SPEC = r'''
verus! {
global size_of usize == 8;
pub const WORD_WIDTH: usize = 64;
pub assume_specification[ usize::div_ceil ](a: usize, b: usize) -> (r: usize)
    requires b != 0,
    ensures r as int == ceil_div(a as int, b as int);

pub assume_specification<T>[ <[T]>::swap ](s: &mut [T], a: usize, b: usize)
    requires (a as int) < old(s)@.len(), (b as int) < old(s)@.len(),
    ensures final(s)@ == old(s)@.update(a as int, old(s)@[b as int]).update(b as int, old(s)@[a as int]);

pub open spec fn rw(width: int) -> int { ceil_div(width, 64) }
pub open spec fn bit_of(w: u64, b: int) -> bool { w & (1u64 << (b as u64)) != 0 }
// the abstract matrix: cell (i, j) of a dense matrix
pub open spec fn cell(m: DenseBinaryMatrix, i: int, j: int) -> bool {
    bit_of(m.elements@[i * rw(m.width as int) + j / 64], j % 64)
}
pub open spec fn dm_wf(m: DenseBinaryMatrix) -> bool {
    m.elements@.len() >= m.height as int * rw(m.width as int) && m.elements@.len() <= usize::MAX && m.width <= 0xffff_ffff && m.height <= 0xffff_ffff
}
pub open spec fn in_range(m: DenseBinaryMatrix, i: int, j: int) -> bool { 0 <= i < m.height && 0 <= j < m.width }

pub proof fn lemma_word_index(h: int, w: int, i: int, j: int)
    requires 0 <= i < h, 0 <= j < w,
    ensures 0 <= i * rw(w) + j / 64 < h * rw(w), 0 <= j / 64 < rw(w), 0 <= j % 64 < 64, rw(w) >= 1, i * rw(w) >= 0,
            i * rw(w) + rw(w) <= h * rw(w),
{
    lemma_ceil_div_exact(w, 64);
    let r = rw(w);
    assert(r * 64 >= w);
    assert(j / 64 < r) by {
        lemma_fundamental_div_mod(j, 64);
        if j / 64 >= r { assert(64 * (j / 64) >= 64 * r) by (nonlinear_arith) requires j / 64 >= r; }
    }
    lemma_div_pos_is_pos(j, 64);
    assert(i * r >= 0) by (nonlinear_arith) requires i >= 0, r >= 0;
    assert(i * r + r <= h * r) by (nonlinear_arith) requires i + 1 <= h, r >= 0;
}
// distinct cells live in distinct (word, bit) positions
pub proof fn lemma_cell_distinct(w: int, i1: int, j1: int, i2: int, j2: int)
    requires 0 <= j1 < w, 0 <= j2 < w, 0 <= i1, 0 <= i2, (i1 != i2 || j1 != j2),
    ensures i1 * rw(w) + j1 / 64 != i2 * rw(w) + j2 / 64 || j1 % 64 != j2 % 64,
{
    let r = rw(w);
    lemma_word_index(i1 + 1, w, i1, j1);
    lemma_word_index(i2 + 1, w, i2, j2);
    if i1 == i2 {
        lemma_fundamental_div_mod(j1, 64); lemma_fundamental_div_mod(j2, 64);
    } else if i1 < i2 {
        assert(i1 * r + r <= i2 * r) by (nonlinear_arith) requires i1 + 1 <= i2, r >= 0;
    } else {
        assert(i2 * r + r <= i1 * r) by (nonlinear_arith) requires i2 + 1 <= i1, r >= 0;
    }
}
// bit-level facts
pub proof fn lemma_alloc(h: int, w: int)
    requires h >= 0, w >= 0,
    ensures h * (w + 63) / 64 >= h * rw(w), h * (w + 63) / 64 >= 0,
{
    lemma_fundamental_div_mod(w + 63, 64);
    let q = (w + 63) / 64; let r = (w + 63) % 64;
    lemma_div_pos_is_pos(w + 63, 64);
    assert(h * (w + 63) == 64 * (h * q) + h * r) by (nonlinear_arith) requires w + 63 == 64 * q + r;
    assert(h * r >= 0) by (nonlinear_arith) requires h >= 0, r >= 0;
    assert(h * q >= 0) by (nonlinear_arith) requires h >= 0, q >= 0;
    lemma_div_is_ordered(64 * (h * q), h * (w + 63), 64);
    lemma_div_multiples_vanish(h * q, 64);
}
pub proof fn lemma_row_base(h: int, w: int, i: int)
    requires 0 <= i < h, w >= 0,
    ensures 0 <= i * rw(w), i * rw(w) + rw(w) <= h * rw(w), rw(w) >= 0,
{
    lemma_ceil_div_exact(w, 64);
    let r = rw(w);
    assert(i * r >= 0) by (nonlinear_arith) requires i >= 0, r >= 0;
    assert(i * r + r <= h * r) by (nonlinear_arith) requires i + 1 <= h, r >= 0;
}
pub proof fn lemma_rows_disjoint(w: int, i: int, j: int)
    requires i != j, i >= 0, j >= 0, w >= 0,
    ensures i * rw(w) + rw(w) <= j * rw(w) || j * rw(w) + rw(w) <= i * rw(w),
{
    lemma_ceil_div_exact(w, 64);
    let r = rw(w);
    if i < j { assert(i * r + r <= j * r) by (nonlinear_arith) requires i + 1 <= j, r >= 0; }
    else { assert(j * r + r <= i * r) by (nonlinear_arith) requires j + 1 <= i, r >= 0; }
}
pub proof fn lemma_set_bit(w: u64, b: u64, c: u64)
    requires b < 64, c < 64,
    ensures bit_of(w | (1u64 << b), c as int) == (if c == b { true } else { bit_of(w, c as int) }),
            bit_of(w & !(1u64 << b), c as int) == (if c == b { false } else { bit_of(w, c as int) }),
{
    assert((w | (1u64 << b)) & (1u64 << c) != 0 <==> (c == b || w & (1u64 << c) != 0)) by (bit_vector) requires b < 64, c < 64;
    assert((w & !(1u64 << b)) & (1u64 << c) != 0 <==> (c != b && w & (1u64 << c) != 0)) by (bit_vector) requires b < 64, c < 64;
}
pub proof fn lemma_xor_bit(a: u64, b: u64, c: u64)
    requires c < 64,
    ensures bit_of(a ^ b, c as int) == (bit_of(a, c as int) != bit_of(b, c as int)),
{
    assert(((a ^ b) & (1u64 << c) != 0) <==> ((a & (1u64 << c) != 0) != (b & (1u64 << c) != 0))) by (bit_vector) requires c < 64;
}
pub proof fn lemma_zero_bit(c: u64)
    requires c < 64,
    ensures !bit_of(0u64, c as int),
{
    assert(0u64 & (1u64 << c) == 0) by (bit_vector);
}
} // verus!
'''


def build():
    u = VUnit('V-DENSE')
    u.raw(common.PRELUDE)
    u.raw(common.ARITH)
    u.raw('verus! {')
    u.struct('src/octet.rs', 'Octet', prefix='#[derive(PartialEq, Eq, Structural)]\n')
    u.raw('''impl Octet {
    pub fn zero() -> (r: Octet) ensures r.value == 0 { Octet { value: 0 } }
    pub fn one() -> (r: Octet) ensures r.value == 1 { Octet { value: 1 } }
}
''', label='Octet::zero/one (real bodies are these literals) and derived PartialEq')
    u.trust('derive(PartialEq) on Octet compares the value field (std derive semantics)')
    u.struct('src/matrix.rs', 'DenseBinaryMatrix')
    u.raw('} // verus!')
    u.raw(SPEC)
    u.trust('assume_specification usize::div_ceil: ceil(a/b) (std documented behaviour)')
    u.trust('assume_specification <[T]>::swap: exchanges the two elements, panics if out of bounds (std documented behaviour)')
    u.raw('verus! {')
    u.raw('''
// util::get_both_ranges (safe code: split_at_mut) and gf2::add_assign_binary (iterator zip): external, contracts assumed
#[verifier::external_body]
fn get_both_ranges(vector: &mut Vec<u64>, i: usize, j: usize, len: usize) -> (r: (&mut [u64], &mut [u64]))
    requires i as int + len as int <= old(vector)@.len(), j as int + len as int <= old(vector)@.len(), i as int + len as int <= j as int || j as int + len as int <= i as int,
    ensures r.0@ == old(vector)@.subrange(i as int, i as int + len as int), r.1@ == old(vector)@.subrange(j as int, j as int + len as int),
            final(r.0)@.len() == len as int, final(r.1)@.len() == len as int, final(vector)@.len() == old(vector)@.len(),
            forall |p: int| 0 <= p < old(vector)@.len() ==> #[trigger] final(vector)@[p] == (
                if i as int <= p < i as int + len as int { final(r.0)@[p - i as int] } else if j as int <= p < j as int + len as int { final(r.1)@[p - j as int] } else { old(vector)@[p] }),
{ unimplemented!() }
#[verifier::external_body]
fn add_assign_binary(dest: &mut [u64], src: &[u64])
    requires src@.len() >= old(dest)@.len(),
    ensures final(dest)@.len() == old(dest)@.len(), forall |k: int| 0 <= k < old(dest)@.len() ==> #[trigger] final(dest)@[k] == old(dest)@[k] ^ src@[k],
{ unimplemented!() }
''', label='get_both_ranges / add_assign_binary contracts')
    u.trust('util::get_both_ranges (safe code, split_at_mut) and gf2::add_assign_binary (iter_mut().zip()): external; contracts assumed (two disjoint mutable sub-slices; element-wise xor)')
    u.raw('impl DenseBinaryMatrix {')
    IMPL = 'impl DenseBinaryMatrix'
    u.fn('src/matrix.rs', 'row_word_width', impl=IMPL, ret='r', requires=['self.width <= 0xffff_ffff'], ensures=['r as int == rw(self.width as int)'])
    u.fn('src/matrix.rs', 'word_offset', impl=IMPL, ret='r', ensures=['r as int == col as int / 64'])
    u.fn('src/matrix.rs', 'bit_position', impl=IMPL, ret='r',
         requires=['dm_wf(*self)', 'row <= 0xffff_ffff', 'col <= 0xffff_ffff'],
         ensures=['r.0 as int == row as int * rw(self.width as int) + col as int / 64', 'r.1 as int == col as int % 64', 'r.1 < 64'],
         prepend='proof { lemma_ceil_div_exact(self.width as int, 64); lemma_div_pos_is_pos(self.width as int, 64); lemma_div_pos_is_pos(col as int, 64);'
                 ' assert(rw(self.width as int) <= 0x1_0000_0000) by { lemma_div_is_ordered_by_denominator(self.width as int, 1, 64); lemma_div_basics(self.width as int); }'
                 ' assert(col as int / 64 <= col as int) by { lemma_div_is_ordered_by_denominator(col as int, 1, 64); lemma_div_basics(col as int); }'
                 ' assert(0 <= row as int * rw(self.width as int) <= 0xffff_ffff * 0x1_0000_0000) by (nonlinear_arith) requires 0 <= row as int <= 0xffff_ffff, 0 <= rw(self.width as int) <= 0x1_0000_0000; }')
    u.fn('src/matrix.rs', 'select_mask', impl=IMPL, ret='r', requires=['bit < 64'], ensures=['r == 1u64 << (bit as u64)'])
    u.fn('src/matrix.rs', 'clear_bit', impl=IMPL, ret='r', requires=['bit < 64'], ensures=['*final(word) == *old(word) & !(1u64 << (bit as u64))'])
    u.fn('src/matrix.rs', 'set_bit', impl=IMPL, ret='r', requires=['bit < 64'], ensures=['*final(word) == *old(word) | (1u64 << (bit as u64))'])
    T = 'impl BinaryMatrix for DenseBinaryMatrix'
    FRAME = 'final(self).height == old(self).height && final(self).width == old(self).width'
    u.fn('src/matrix.rs', 'new', impl=T, ret='r',
         sig_subst=[('_: usize', '_hint: usize')],
         requires=['height <= 0xff_ffff', 'width <= 0xffff'],
         ensures=['dm_wf(r)', 'r.height == height && r.width == width',
                  'forall |i: int, j: int| 0 <= i < height && 0 <= j < width ==> !#[trigger] cell(r, i, j)'],
         inserts=[('let elements = vec![0;', 'before',
                   'proof { assert(height as int * (width as int + 63) <= 0xff_ffff * 0x1_0040) by (nonlinear_arith) requires 0 <= height as int <= 0xff_ffff, 0 <= width as int + 63 <= 0x1_0040; lemma_alloc(height as int, width as int); }'),
                  ('DenseBinaryMatrix {', 'before',
                   'proof { assert forall |i: int, j: int| 0 <= i < height && 0 <= j < width implies !bit_of(#[trigger] elements@[i * rw(width as int) + j / 64], j % 64) by { lemma_word_index(height as int, width as int, i, j); lemma_zero_bit((j % 64) as u64); } }')])
    u.fn('src/matrix.rs', 'get', impl=T, ret='r',
         requires=['dm_wf(*self)', 'in_range(*self, i as int, j as int)'],
         ensures=['r.value == (if cell(*self, i as int, j as int) { 1u8 } else { 0u8 })'],
         prepend='proof { lemma_word_index(self.height as int, self.width as int, i as int, j as int); }')
    u.fn('src/matrix.rs', 'set', impl=T, ret='r',
         requires=['dm_wf(*old(self))', 'in_range(*old(self), i as int, j as int)'],
         ensures=['dm_wf(*final(self))', FRAME,
                  'forall |i2: int, j2: int| in_range(*old(self), i2, j2) ==> #[trigger] cell(*final(self), i2, j2) == (if i2 == i as int && j2 == j as int { value.value != 0 } else { cell(*old(self), i2, j2) })'],
         prepend='proof { lemma_word_index(self.height as int, self.width as int, i as int, j as int); }',
         append="""proof {
    let o = *old(self); let n = *self; let w = o.width as int;
    assert forall |i2: int, j2: int| in_range(o, i2, j2) implies #[trigger] cell(n, i2, j2) == (if i2 == i as int && j2 == j as int { value.value != 0 } else { cell(o, i2, j2) }) by {
        lemma_word_index(o.height as int, w, i2, j2);
        lemma_set_bit(o.elements@[i as int * rw(w) + j as int / 64], (j as int % 64) as u64, (j2 % 64) as u64);
        if i2 != i as int || j2 != j as int { lemma_cell_distinct(w, i as int, j as int, i2, j2); }
    }
}""")
    u.fn('src/matrix.rs', 'swap_rows', impl=T, ret='r',
         requires=['dm_wf(*old(self))', '(i as int) < old(self).height', '(j as int) < old(self).height'],
         ensures=['dm_wf(*final(self))', FRAME,
                  'forall |i2: int, j2: int| in_range(*old(self), i2, j2) ==> #[trigger] cell(*final(self), i2, j2) == cell(*old(self), if i2 == i as int { j as int } else if i2 == j as int { i as int } else { i2 }, j2)'],
         prepend='proof { lemma_row_base(self.height as int, self.width as int, i as int); lemma_row_base(self.height as int, self.width as int, j as int); }',
         loops={0: {'spec': ('invariant dm_wf(*self), self.height == old(self).height, self.width == old(self).width, self.elements@.len() == old(self).elements@.len(),'
                             ' (i as int) < self.height, (j as int) < self.height, row_i as int == i as int * rw(self.width as int), row_j as int == j as int * rw(self.width as int),'
                             ' row_i as int + rw(self.width as int) <= self.height as int * rw(self.width as int), row_j as int + rw(self.width as int) <= self.height as int * rw(self.width as int),'
                             ' k as int <= rw(self.width as int),'
                             ' forall |p: int| 0 <= p < self.elements@.len() ==> #[trigger] self.elements@[p] == ('
                             '   if row_i as int <= p < row_i as int + k as int { old(self).elements@[row_j as int + (p - row_i as int)] }'
                             '   else if row_j as int <= p < row_j as int + k as int { old(self).elements@[row_i as int + (p - row_j as int)] }'
                             '   else { old(self).elements@[p] }),'),
                    'body_top': 'proof { if i != j { lemma_rows_disjoint(self.width as int, i as int, j as int); } }'}},
         append="""proof {
    let o = *old(self); let n = *self; let w = o.width as int; let r = rw(w);
    assert forall |i2: int, j2: int| in_range(o, i2, j2) implies #[trigger] cell(n, i2, j2) == cell(o, if i2 == i as int { j as int } else if i2 == j as int { i as int } else { i2 }, j2) by {
        lemma_word_index(o.height as int, w, i2, j2);
        lemma_word_index(o.height as int, w, i as int, j2);
        lemma_word_index(o.height as int, w, j as int, j2);
        if i2 != i as int { lemma_rows_disjoint(w, i2, i as int); }
        if i2 != j as int { lemma_rows_disjoint(w, i2, j as int); }
        if i != j { lemma_rows_disjoint(w, i as int, j as int); }
    }
}""")
    SWAPPED = ('(if hint <= i2 && i2 < %s { cell(*old(self), i2, if j2 == i as int { j as int } else if j2 == j as int { i as int } else { j2 }) } else { cell(*old(self), i2, j2) })')
    u.fn('src/matrix.rs', 'swap_columns', impl=T, ret='r',
         requires=['dm_wf(*old(self))', '(i as int) < old(self).width', '(j as int) < old(self).width', 'start_row_hint <= old(self).height'],
         ensures=['dm_wf(*final(self))', FRAME,
                  'forall |i2: int, j2: int| in_range(*old(self), i2, j2) ==> #[trigger] cell(*final(self), i2, j2) == '
                  '(if start_row_hint as int <= i2 { cell(*old(self), i2, if j2 == i as int { j as int } else if j2 == j as int { i as int } else { j2 }) } else { cell(*old(self), i2, j2) })'],
         inserts=[('let unset_i =', 'before', 'let ghost hint = start_row_hint as int; let ghost gbi = bit_i as u64; let ghost gbj = bit_j as u64;\nproof { lemma_word_index(1, self.width as int, 0, i as int); lemma_word_index(1, self.width as int, 0, j as int); assert(0 * rw(self.width as int) == 0) by (nonlinear_arith); }')],
         loops={0: {'spec': ('invariant dm_wf(*self), self.height == old(self).height, self.width == old(self).width, self.elements@.len() == old(self).elements@.len(), dm_wf(*old(self)),'
                             ' (i as int) < self.width, (j as int) < self.width, hint == start_row_hint as int, hint <= row as int, row as int <= self.height,'
                             ' row_width as int == rw(self.width as int), word_i as int == i as int / 64, word_j as int == j as int / 64, gbi as int == i as int % 64, gbj as int == j as int % 64, gbi < 64, gbj < 64,'
                             ' bit_i == 1u64 << gbi, bit_j == 1u64 << gbj, unset_i == !(1u64 << gbi), unset_j == !(1u64 << gbj),'
                             ' forall |p: int| row as int * rw(self.width as int) <= p < self.elements@.len() ==> #[trigger] self.elements@[p] == old(self).elements@[p],'
                             ' forall |i2: int, j2: int| in_range(*old(self), i2, j2) && i2 < row as int ==> #[trigger] cell(*self, i2, j2) == ' + (SWAPPED % 'row as int') + ','),
                    'body_top': ('let ghost pre = *self;\nproof { lemma_word_index(self.height as int, self.width as int, row as int, i as int); lemma_word_index(self.height as int, self.width as int, row as int, j as int);'
                                 ' lemma_row_base(self.height as int, self.width as int, row as int); }'),
                    'body_bottom': """proof {
    let o = *old(self); let n = *self; let w = o.width as int; let r = rw(w); let rr = row as int;
    let wi = rr * r + i as int / 64; let wj = rr * r + j as int / 64;
    let oi = o.elements@[wi]; let oj = o.elements@[wj];
    assert(pre.elements@[wi] == oi && pre.elements@[wj] == oj);
    // the two words after the four updates
    let i_set = bit_of(oi, i as int % 64);
    let j_set = bit_of(oj, j as int % 64);
    assert forall |p: int| (rr + 1) * r <= p < n.elements@.len() implies #[trigger] n.elements@[p] == o.elements@[p] by {
        assert((rr + 1) * r == rr * r + r) by (nonlinear_arith);
    }
    assert forall |i2: int, j2: int| in_range(o, i2, j2) && i2 < rr + 1 implies #[trigger] cell(n, i2, j2) == """ + (SWAPPED % 'rr + 1') + """ by {
        lemma_word_index(o.height as int, w, i2, j2);
        if i2 < rr {
            lemma_rows_disjoint(w, i2, rr);
            assert(n.elements@[i2 * r + j2 / 64] == pre.elements@[i2 * r + j2 / 64]);
            assert(cell(n, i2, j2) == cell(pre, i2, j2));
        } else {
            let c = (j2 % 64) as u64;
            lemma_set_bit(oi, gbi, c); lemma_set_bit(oj, gbj, c);
            if wi == wj {
                // both columns in the same word: the second pair of updates acts on the result of the first
                let mid = if j_set { oi | (1u64 << gbi) } else { oi & !(1u64 << gbi) };
                lemma_set_bit(mid, gbj, c);
                lemma_set_bit(oi, gbi, gbj); lemma_set_bit(oi, gbj, gbi);
            }
            lemma_fundamental_div_mod(j2, 64); lemma_fundamental_div_mod(i as int, 64); lemma_fundamental_div_mod(j as int, 64);
        }
    }
}"""}})
    u.fn('src/matrix.rs', 'add_assign_rows', impl=T, ret='r', rules=['A1'],
         requires=['dm_wf(*old(self))', '(dest as int) < old(self).height', '(src as int) < old(self).height', 'dest != src'],
         ensures=['dm_wf(*final(self))', FRAME,
                  'forall |i2: int, j2: int| in_range(*old(self), i2, j2) ==> #[trigger] cell(*final(self), i2, j2) == '
                  '(if i2 == dest as int { cell(*old(self), dest as int, j2) != cell(*old(self), src as int, j2) } else { cell(*old(self), i2, j2) })'],
         prepend='proof { lemma_row_base(self.height as int, self.width as int, dest as int); lemma_row_base(self.height as int, self.width as int, src as int); lemma_rows_disjoint(self.width as int, dest as int, src as int); }',
         append="""proof {
    let o = *old(self); let n = *self; let w = o.width as int; let r = rw(w);
    assert forall |i2: int, j2: int| in_range(o, i2, j2) implies #[trigger] cell(n, i2, j2) ==
        (if i2 == dest as int { cell(o, dest as int, j2) != cell(o, src as int, j2) } else { cell(o, i2, j2) }) by {
        lemma_word_index(o.height as int, w, i2, j2);
        lemma_word_index(o.height as int, w, dest as int, j2);
        lemma_word_index(o.height as int, w, src as int, j2);
        if i2 == dest as int {
            lemma_xor_bit(o.elements@[dest as int * r + j2 / 64], o.elements@[src as int * r + j2 / 64], (j2 % 64) as u64);
        } else {
            lemma_rows_disjoint(w, i2, dest as int);
        }
    }
}""")
    u.fn('src/matrix.rs', 'resize', impl=T, ret='r', rules=['A1'],
         requires=['dm_wf(*old(self))', 'new_height <= old(self).height', 'new_width <= old(self).width', 'new_width >= 1'],
         ensures=['dm_wf(*final(self))', 'final(self).height == new_height && final(self).width == new_width',
                  'forall |i2: int, j2: int| 0 <= i2 < new_height && 0 <= j2 < new_width ==> #[trigger] cell(*final(self), i2, j2) == cell(*old(self), i2, j2)'],
         inserts=[('let words_to_remove = old_row_width - new_row_width;', 'before',
                   'proof { lemma_ceil_div_mono(new_width as int, old(self).width as int, 64); lemma_ceil_div_exact(new_width as int, 64); lemma_ceil_div_exact(old(self).width as int, 64);'
                   ' let oh = old(self).height as int;'
                   ' assert(new_height as int * new_row_width as int <= new_height as int * old_row_width as int) by (nonlinear_arith) requires 0 <= new_height as int, 0 <= new_row_width as int <= old_row_width as int;'
                   ' assert(new_height as int * old_row_width as int <= oh * old_row_width as int) by (nonlinear_arith) requires 0 <= new_height as int <= oh, 0 <= old_row_width as int; }'),
                  ('let mut src = 0;', 'replace', 'let mut src: usize = 0; let ghost mut gr: int = 0; let ghost mut gk: int = 0;'),
                  ('let mut dest = 0;', 'replace', 'let mut dest: usize = 0;'),
                  ('self.elements.truncate(', 'before',
                   'proof { assert forall |p: int| 0 <= p < new_height as int * new_row_width as int implies #[trigger] self.elements@[p] == old(self).elements@[(p / new_row_width as int) * old_row_width as int + p % (new_row_width as int)] by {'
                   ' if words_to_remove == 0 { lemma_fundamental_div_mod(p, new_row_width as int); assert((p / new_row_width as int) * new_row_width as int == new_row_width as int * (p / new_row_width as int)) by (nonlinear_arith); } } }')],
         loops={0: {'spec': ('invariant self.height == new_height, self.width == new_width, self.elements@.len() == old(self).elements@.len(), dm_wf(*old(self)), new_height <= old(self).height,'
                             ' new_row_width as int == rw(new_width as int), old_row_width as int == rw(old(self).width as int), 1 <= new_row_width, new_row_width < old_row_width, words_to_remove == old_row_width - new_row_width,'
                             ' new_height as int * old_row_width as int <= old(self).height as int * old_row_width as int, new_height as int * new_row_width as int <= new_height as int * old_row_width as int,'
                             ' 0 <= gr <= new_height, 0 <= gk < new_row_width, dest as int == gr * new_row_width as int + gk, src as int == gr * old_row_width as int + gk, (gr == new_height ==> gk == 0),'
                             ' dest as int <= new_height as int * new_row_width as int,'
                             ' forall |q: int| dest as int <= q < self.elements@.len() ==> #[trigger] self.elements@[q] == old(self).elements@[q],'
                             ' forall |p: int| 0 <= p < dest as int ==> #[trigger] self.elements@[p] == old(self).elements@[(p / new_row_width as int) * old_row_width as int + p % (new_row_width as int)],'
                             ' decreases new_height as int * new_row_width as int - dest as int,'),
                    'body_top': ('proof { assert(gr < new_height as int) by { if gr >= new_height as int { assert(gr * new_row_width as int >= new_height as int * new_row_width as int) by (nonlinear_arith) requires gr >= new_height as int, new_row_width >= 1; } }'
                                 ' assert(gr * old_row_width as int + old_row_width as int <= new_height as int * old_row_width as int) by (nonlinear_arith) requires gr + 1 <= new_height as int, old_row_width >= 0;'
                                 ' assert(gr * new_row_width as int <= gr * old_row_width as int) by (nonlinear_arith) requires gr >= 0, new_row_width <= old_row_width;'
                                 ' lemma_fundamental_div_mod_converse(dest as int, new_row_width as int, gr, gk); }\n let ghost d0 = dest as int;'),
                    'body_bottom': ('proof { let nrw = new_row_width as int; if gk + 1 == nrw { gr = gr + 1; gk = 0;'
                                    ' assert(gr * nrw <= new_height as int * nrw) by (nonlinear_arith) requires gr <= new_height as int, nrw >= 0; }'
                                    ' else { gk = gk + 1;'
                                    ' assert(gr * nrw + nrw <= new_height as int * nrw) by (nonlinear_arith) requires gr + 1 <= new_height as int, nrw >= 0; } }'),
                    'after': ('proof { let nrw = new_row_width as int; if gr < new_height as int { assert(gr * nrw + nrw <= new_height as int * nrw) by (nonlinear_arith) requires gr + 1 <= new_height as int, nrw >= 0; } }')}},
         hint_inserts=[('if dest % new_row_width == 0 {', 'before',
                       'proof { let nrw = new_row_width as int; if gk + 1 == nrw { assert((gr + 1) * nrw == gr * nrw + nrw) by (nonlinear_arith);'
                       ' assert((gr + 1) * old_row_width as int == gr * old_row_width as int + old_row_width as int) by (nonlinear_arith);'
                       ' lemma_fundamental_div_mod_converse(dest as int, nrw, gr + 1, 0); } else { lemma_fundamental_div_mod_converse(dest as int, nrw, gr, gk + 1); } }')],
         append="""proof {
    let o = *old(self); let n = *self; let nrw = rw(new_width as int); let orw = rw(o.width as int);
    assert forall |i2: int, j2: int| 0 <= i2 < new_height && 0 <= j2 < new_width implies #[trigger] cell(n, i2, j2) == cell(o, i2, j2) by {
        lemma_word_index(new_height as int, new_width as int, i2, j2);
        let p = i2 * nrw + j2 / 64;
        lemma_fundamental_div_mod_converse(p, nrw, i2, j2 / 64);
    }
}""")
    u.fn('src/matrix.rs', 'query_non_zero_columns_into', impl=T, ret='r',
         requires=['dm_wf(*self)', '(row as int) < self.height', 'start_col <= self.width'],
         ensures=[# the strictly increasing list of the columns >= start_col whose cell is set
                  'forall |k: int| 0 <= k < final(out)@.len() ==> start_col as int <= (#[trigger] final(out)@[k]) as int && (final(out)@[k] as int) < self.width && cell(*self, row as int, final(out)@[k] as int)',
                  'forall |k: int, l: int| 0 <= k < l < final(out)@.len() ==> final(out)@[k] < final(out)@[l]',
                  'forall |c: int| start_col as int <= c < self.width && cell(*self, row as int, c) ==> exists |k: int| 0 <= k < final(out)@.len() && #[trigger] final(out)@[k] as int == c'],
         loops={0: {'spec': ('invariant dm_wf(*self), (row as int) < self.height, start_col <= col, col <= self.width,'
                             ' forall |k: int| 0 <= k < out@.len() ==> start_col as int <= (#[trigger] out@[k]) as int && (out@[k] as int) < col as int && cell(*self, row as int, out@[k] as int),'
                             ' forall |k: int, l: int| 0 <= k < l < out@.len() ==> out@[k] < out@[l],'
                             ' forall |c: int| start_col as int <= c < col as int && cell(*self, row as int, c) ==> exists |k: int| 0 <= k < out@.len() && #[trigger] out@[k] as int == c,'),
                    'body_bottom': ('proof { assert forall |c: int| start_col as int <= c < col as int + 1 && cell(*self, row as int, c) implies exists |k: int| 0 <= k < out@.len() && #[trigger] out@[k] as int == c by {'
                                    ' if c == col as int { assert(out@[out@.len() - 1] as int == c); } else { let k0 = choose |k: int| 0 <= k < verif_prev.len() && #[trigger] verif_prev[k] as int == c; assert(out@[k0] == verif_prev[k0]); } } }'),
                    'body_top': 'let ghost verif_prev = out@;'}})
    u.fn('src/matrix.rs', 'get_ones_in_column_into', impl=T, ret='r',
         requires=['dm_wf(*self)', '(col as int) < self.width', 'start_row <= end_row', 'end_row <= self.height', 'self.height <= 0xff_ffff'],
         ensures=['forall |k: int| 0 <= k < final(out)@.len() ==> start_row as int <= (#[trigger] final(out)@[k]) as int && (final(out)@[k] as int) < end_row as int && cell(*self, final(out)@[k] as int, col as int)',
                  'forall |k: int, l: int| 0 <= k < l < final(out)@.len() ==> final(out)@[k] < final(out)@[l]',
                  'forall |r: int| start_row as int <= r < end_row as int && cell(*self, r, col as int) ==> exists |k: int| 0 <= k < final(out)@.len() && #[trigger] final(out)@[k] as int == r'],
         loops={0: {'spec': ('invariant dm_wf(*self), (col as int) < self.width, start_row <= row, row <= end_row, end_row <= self.height, self.height <= 0xff_ffff,'
                             ' forall |k: int| 0 <= k < out@.len() ==> start_row as int <= (#[trigger] out@[k]) as int && (out@[k] as int) < row as int && cell(*self, out@[k] as int, col as int),'
                             ' forall |k: int, l: int| 0 <= k < l < out@.len() ==> out@[k] < out@[l],'
                             ' forall |r: int| start_row as int <= r < row as int && cell(*self, r, col as int) ==> exists |k: int| 0 <= k < out@.len() && #[trigger] out@[k] as int == r,'),
                    'body_top': 'let ghost verif_prev = out@;',
                    'body_bottom': ('proof { assert forall |r: int| start_row as int <= r < row as int + 1 && cell(*self, r, col as int) implies exists |k: int| 0 <= k < out@.len() && #[trigger] out@[k] as int == r by {'
                                    ' if r == row as int { assert(out@[out@.len() - 1] as int == r); } else { let k0 = choose |k: int| 0 <= k < verif_prev.len() && #[trigger] verif_prev[k] as int == r; assert(out@[k0] == verif_prev[k0]); } } }')}})
    u.fn('src/matrix.rs', 'height', impl=T, ret='r', ensures=['r == self.height'])
    u.fn('src/matrix.rs', 'width', impl=T, ret='r', ensures=['r == self.width'])
    # the two allocating wrappers: same contract as the _into forms, on the returned vector
    u.fn('src/matrix.rs', 'query_non_zero_columns', impl=T, ret='r',
         requires=['dm_wf(*self)', '(row as int) < self.height', 'start_col <= self.width'],
         ensures=['forall |k: int| 0 <= k < r@.len() ==> start_col as int <= (#[trigger] r@[k]) as int && (r@[k] as int) < self.width && cell(*self, row as int, r@[k] as int)',
                  'forall |k: int, l: int| 0 <= k < l < r@.len() ==> r@[k] < r@[l]',
                  'forall |c: int| start_col as int <= c < self.width && cell(*self, row as int, c) ==> exists |k: int| 0 <= k < r@.len() && #[trigger] r@[k] as int == c'],
         resubst=[(r'let mut cols = Vec::with_capacity\(', 'let mut cols: Vec<usize> = Vec::with_capacity(', 'type-annotation')])
    u.fn('src/matrix.rs', 'get_ones_in_column', impl=T, ret='r',
         requires=['dm_wf(*self)', '(col as int) < self.width', 'start_row <= end_row', 'end_row <= self.height', 'self.height <= 0xff_ffff'],
         ensures=['forall |k: int| 0 <= k < r@.len() ==> start_row as int <= (#[trigger] r@[k]) as int && (r@[k] as int) < end_row as int && cell(*self, r@[k] as int, col as int)',
                  'forall |k: int, l: int| 0 <= k < l < r@.len() ==> r@[k] < r@[l]',
                  'forall |q: int| start_row as int <= q < end_row as int && cell(*self, q, col as int) ==> exists |k: int| 0 <= k < r@.len() && #[trigger] r@[k] as int == q'],
         resubst=[(r'let mut rows = Vec::with_capacity\(', 'let mut rows: Vec<u32> = Vec::with_capacity(', 'type-annotation')])
    u.raw('}')
    u.raw('} // verus!')
    return u
