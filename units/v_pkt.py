"""V-PKT (C13): EncodingPacket (de)serialisation for every payload length."""
from vunit import VUnit
import common
import v_enc

SPEC = r'''
verus! {
global size_of usize == 8;
// wire form of a payload id (4 bytes) and its parser; their bit-level definitions and mutual inverseness are proved on the
// real PayloadId::serialize/deserialize for all 2^32 byte patterns / all ids by K-WIRE (Kani, complete)
pub uninterp spec fn pid_bytes(id: PayloadId) -> Seq<u8>;
pub uninterp spec fn pid_parse(b: Seq<u8>) -> PayloadId;
pub open spec fn pid_valid(id: PayloadId) -> bool { id.encoding_symbol_id < 16777216 }
#[verifier::external_body]
pub proof fn axiom_pid_roundtrip()
    ensures forall |id: PayloadId| pid_valid(id) ==> (#[trigger] pid_bytes(id)).len() == 4 && pid_parse(pid_bytes(id)) == id,
            forall |b: Seq<u8>| b.len() == 4 ==> pid_valid(#[trigger] pid_parse(b)) && pid_bytes(pid_parse(b)) == b,
{ }
// RFC 6330 4.4.2: an encoding packet is the 4-byte payload id followed by the symbol bytes
pub open spec fn packet_bytes(p: EncodingPacket) -> Seq<u8> { pid_bytes(p.payload_id) + p.data@ }
pub proof fn lemma_packet_roundtrip(p: EncodingPacket, buf: Seq<u8>)
    requires pid_valid(p.payload_id),
    ensures
        // deserialize(serialize(p)) == p
        pid_parse(packet_bytes(p).subrange(0, 4)) == p.payload_id && packet_bytes(p).subrange(4, packet_bytes(p).len() as int) == p.data@,
        // serialize(deserialize(buf)) == buf
        buf.len() >= 4 ==> pid_bytes(pid_parse(buf.subrange(0, 4))) + buf.subrange(4, buf.len() as int) == buf,
{
    axiom_pid_roundtrip();
    assert(packet_bytes(p).subrange(0, 4) =~= pid_bytes(p.payload_id));
    assert(packet_bytes(p).subrange(4, packet_bytes(p).len() as int) =~= p.data@);
    if buf.len() >= 4 {
        assert(pid_bytes(pid_parse(buf.subrange(0, 4))) + buf.subrange(4, buf.len() as int) =~= buf);
    }
}
#[verifier::external_body]
fn verif_vec_from_slice(s: &[u8]) -> (r: Vec<u8>)
    ensures r@ == s@,
{ unimplemented!() }
#[verifier::external_body]
fn verif_extend_from_iter(v: &mut Vec<u8>, b: &Vec<u8>)
    ensures final(v)@ == old(v)@ + b@,
{ unimplemented!() }
} // verus!
'''


def build():
    u = VUnit('V-PKT')
    u.raw(common.PRELUDE)
    u.raw('verus! {')
    u.struct('src/base.rs', 'PayloadId')
    u.struct('src/base.rs', 'EncodingPacket')
    u.raw('} // verus!')
    u.raw(SPEC)
    u.trust('PayloadId::serialize/deserialize: external here; layout (SBN, 24-bit ESI big-endian) and mutual inverseness proved by K-WIRE (Kani, complete over all values / all byte patterns)')
    u.trust('Vec::from(&[u8]) copies the slice; Vec::extend(slice.iter()) appends the bytes (rules S1/S2: calls rewritten to trusted model functions)')
    u.raw('verus! {')
    u.raw('impl PayloadId {')
    u.fn('src/base.rs', 'deserialize', impl='impl PayloadId', ret='r', external_body=True,
         ensures=['r == pid_parse(data@)', 'pid_valid(r)'])
    u.fn('src/base.rs', 'serialize', impl='impl PayloadId', ret='r', external_body=True,
         requires=['pid_valid(*self)'], ensures=['r@ == pid_bytes(*self)', 'r@.len() == 4'])
    u.raw('}')
    u.raw('impl EncodingPacket {')
    u.fn('src/base.rs', 'deserialize', impl='impl EncodingPacket', ret='r',
         requires=['data@.len() >= 4'],
         ensures=['r.payload_id == pid_parse(data@.subrange(0, 4))', 'r.data@ == data@.subrange(4, data@.len() as int)', 'pid_valid(r.payload_id)'],
         subst=[('Vec::from(&data[4..])', 'verif_vec_from_slice(&data[4..])', 'S1-vec-from-slice')],
         inserts=[('EncodingPacket {', 'before', 'proof { assert(payload_data@ =~= data@.subrange(0, 4)); }')])
    u.fn('src/base.rs', 'serialize', impl='impl EncodingPacket', ret='r',
         requires=['pid_valid(self.payload_id)', 'self.data@.len() <= usize::MAX - 4'],
         ensures=['r@ == packet_bytes(*self)', 'r@.len() == 4 + self.data@.len()'],
         subst=[('serialized.extend(self.data.iter());', 'verif_extend_from_iter(&mut serialized, &self.data);', 'S2-extend-iter')],
         opt_inserts=[('let mut serialized = Vec::with_capacity', 'replace', 'let mut serialized: Vec<u8> = Vec::with_capacity')])
    u.raw('}')
    u.raw('} // verus!')
    return u
