"""V-CRSYM (C05, encoder half of the layout): SourceBlockEncoder::create_symbols cuts a block of K*T bytes into K symbols so that
symbol m is the concatenation of the m-th sub-symbols of the N sub-blocks (RFC 6330 4.4.1.2), for ALL T, Al, N, K and data; and
source_packets numbers them 0..K-1 with T-byte payloads.  Lemma: the decoder's unpack_sub_blocks (V-UNPACK) inverts exactly this."""
from vunit import VUnit
import common
import v_oti, v_part, v_blocks, v_unpack

SPEC = r'''
verus! {
// symbol idx of the block `data` (K symbols): its first m sub-symbols, taken from the positions where RFC 6330 4.4.1.2 puts them
pub open spec fn sym_upto(t: int, al: int, n: int, k: int, data: Seq<u8>, idx: int, m: nat) -> Seq<u8>
    decreases m,
{
    if m == 0 { Seq::empty() } else {
        let sb = m - 1;
        sym_upto(t, al, n, k, data, idx, sb as nat)
            + data.subrange(dst_start(t, al, n, k, idx, sb), dst_start(t, al, n, k, idx, sb) + sub_bytes(t, al, n, sb))
    }
}
pub open spec fn symbol_spec(t: int, al: int, n: int, k: int, data: Seq<u8>, idx: int) -> Seq<u8> { sym_upto(t, al, n, k, data, idx, n as nat) }

pub proof fn lemma_sym_pointwise(t: int, al: int, n: int, k: int, data: Seq<u8>, idx: int, m: nat)
    requires layout_ok(t, al, n), 0 <= idx < k, data.len() == t * k, m <= n,
    ensures
        sym_upto(t, al, n, k, data, idx, m).len() == sym_off(t, al, n, m as int),
        forall |sb: int, b: int| 0 <= sb < m && 0 <= b < sub_bytes(t, al, n, sb) ==>
            #[trigger] sym_upto(t, al, n, k, data, idx, m)[sym_off(t, al, n, sb) + b] == data[dst_start(t, al, n, k, idx, sb) + b],
    decreases m,
{
    if m == 0 {
        lemma_layout(t, al, n, 0);
    } else {
        let sbl = m - 1;
        lemma_sym_pointwise(t, al, n, k, data, idx, sbl as nat);
        lemma_layout(t, al, n, sbl); lemma_dst_range(t, al, n, k, idx, sbl);
        assert(k * t == t * k) by (nonlinear_arith);
        let prev = sym_upto(t, al, n, k, data, idx, sbl as nat);
        let cur = sym_upto(t, al, n, k, data, idx, m);
        let at = dst_start(t, al, n, k, idx, sbl); let by = sub_bytes(t, al, n, sbl);
        assert(cur == prev + data.subrange(at, at + by));
        assert forall |sb: int, b: int| 0 <= sb < m && 0 <= b < sub_bytes(t, al, n, sb) implies
            #[trigger] cur[sym_off(t, al, n, sb) + b] == data[dst_start(t, al, n, k, idx, sb) + b] by {
            if sb == sbl {
                assert(cur[prev.len() + b] == data.subrange(at, at + by)[b]);
            } else {
                lemma_layout(t, al, n, sb); lemma_sym_off_mono(t, al, n, sb + 1, sbl);
                assert(cur[sym_off(t, al, n, sb) + b] == prev[sym_off(t, al, n, sb) + b]);
            }
        }
    }
}
// THE DECODER INVERTS THIS LAYOUT: un-interleaving (V-UNPACK's contract function) symbol idx of create_symbols(data) into any
// buffer of the block's size reproduces data at every position that belongs to symbol idx
pub proof fn lemma_unpack_inverts(t: int, al: int, n: int, k: int, data: Seq<u8>, before: Seq<u8>, idx: int)
    requires layout_ok(t, al, n), 0 <= idx < k, data.len() == t * k, before.len() == t * k,
    ensures
        symbol_spec(t, al, n, k, data, idx).len() == t,
        forall |sb: int, b: int| 0 <= sb < n && 0 <= b < sub_bytes(t, al, n, sb) ==>
            #[trigger] unpack_spec(t, al, n, k, before, symbol_spec(t, al, n, k, data, idx), idx)[dst_start(t, al, n, k, idx, sb) + b] == data[dst_start(t, al, n, k, idx, sb) + b],
{
    lemma_sym_pointwise(t, al, n, k, data, idx, n as nat);
    lemma_layout(t, al, n, 0);
    let sym = symbol_spec(t, al, n, k, data, idx);
    lemma_unpack_pointwise(t, al, n, k, before, sym, idx, n as nat);
    assert forall |sb: int, b: int| 0 <= sb < n && 0 <= b < sub_bytes(t, al, n, sb) implies
        #[trigger] unpack_spec(t, al, n, k, before, sym, idx)[dst_start(t, al, n, k, idx, sb) + b] == data[dst_start(t, al, n, k, idx, sb) + b] by {
        assert(unpack_upto(t, al, n, k, before, sym, idx, n as nat)[dst_start(t, al, n, k, idx, sb) + b] == sym[sym_off(t, al, n, sb) + b]);
        assert(sym_upto(t, al, n, k, data, idx, n as nat)[sym_off(t, al, n, sb) + b] == data[dst_start(t, al, n, k, idx, sb) + b]);
    }
}
// N == 1: the symbol is the idx-th T-byte chunk
pub proof fn lemma_single_sub_block(t: int, al: int, k: int, data: Seq<u8>, idx: int)
    requires layout_ok(t, al, 1), 0 <= idx < k, data.len() == t * k,
    ensures symbol_spec(t, al, 1, k, data, idx) == data.subrange(idx * t, idx * t + t),
{
    lemma_layout(t, al, 1, 0);
    assert(sym_upto(t, al, 1, k, data, idx, 0) == Seq::<u8>::empty());
    assert(k * 0 == 0) by (nonlinear_arith);
    assert(t * idx == idx * t) by (nonlinear_arith);
    assert(Seq::<u8>::empty() + data.subrange(idx * t, idx * t + t) =~= data.subrange(idx * t, idx * t + t));
}
// j-th item of <[T]>::chunks(n): n consecutive elements, the last chunk possibly shorter
pub open spec fn chunk_of(data: Seq<u8>, n: int, j: int) -> Seq<u8> {
    data.subrange(j * n, if (j + 1) * n <= data.len() { (j + 1) * n } else { data.len() as int })
}
pub open spec fn symbols_ok(r: Seq<Symbol>, t: int, al: int, n: int, data: Seq<u8>) -> bool {
    &&& r.len() == data.len() as int / t
    &&& forall |idx: int| 0 <= idx < r.len() ==> (#[trigger] r[idx]).value@ == symbol_spec(t, al, n, data.len() as int / t, data, idx)
}
} // verus!
'''

MODELS = r'''
// rule S4: std iterator chains / macros replaced by model functions whose contract is the std-documented behaviour (trusted)
#[verifier::external_body]
fn verif_vec_of_empty(n: usize) -> (r: Vec<Vec<u8>>)                      // vec![vec![]; n]
    ensures r@.len() == n, forall |j: int| 0 <= j < n ==> (#[trigger] r@[j])@ == Seq::<u8>::empty(),
{ unimplemented!() }
#[verifier::external_body]
fn verif_extend_at(v: &mut Vec<Vec<u8>>, i: usize, s: &[u8])              // (the i-th item of `for x in &mut v`).extend_from_slice(s)
    requires (i as int) < old(v)@.len(),
    ensures final(v)@.len() == old(v)@.len(), (#[trigger] final(v)@[i as int])@ == old(v)@[i as int]@ + s@,
            forall |j: int| 0 <= j < old(v)@.len() && j != i ==> (#[trigger] final(v)@[j])@ == old(v)@[j]@,
{ unimplemented!() }
#[verifier::external_body]
fn verif_symbols_from_vecs(v: &mut Vec<Vec<u8>>) -> (r: Vec<Symbol>)      // v.drain(..).map(Symbol::new).collect()
    ensures r@.len() == old(v)@.len(), forall |j: int| 0 <= j < r@.len() ==> (#[trigger] r@[j]).value@ == old(v)@[j]@,
{ unimplemented!() }
#[verifier::external_body]
fn verif_symbols_from_chunks(data: &[u8], n: usize) -> (r: Vec<Symbol>)   // data.chunks(n).map(|x| Symbol::new(Vec::from(x))).collect()
    requires n > 0,                                                        // <[T]>::chunks panics for chunk_size 0
    ensures r@.len() == ceil_div(data@.len() as int, n as int),
            forall |j: int| 0 <= j < r@.len() ==> (#[trigger] r@[j]).value@ == chunk_of(data@, n as int, j),
{ unimplemented!() }
'''


def build():
    u = VUnit('V-CRSYM')
    u.raw(common.PRELUDE)
    u.raw(common.ARITH)
    u.raw(common.STD_SPECS)
    for t in common.STD_TRUST:
        u.trust(t)
    u.raw(v_part.SPEC)
    u.raw('verus! {')
    v_blocks.oti_struct_and_accessors(u)
    u.struct('src/symbol.rs', 'Symbol')
    u.raw('''pub open spec fn block_start(k: int, kl: int, ks: int, zl: int, t: int) -> int {
    if k <= zl { k * (kl * t) } else { zl * (kl * t) + (k - zl) * (ks * t) }
}''', label='block_start (same definition as V-BLOCKS)')
    u.raw('} // verus!')
    u.raw(v_unpack.SPEC.replace('global size_of usize == 8;', ''), label='layout spec + lemmas of V-UNPACK (decoder side)')
    u.raw(SPEC)
    u.raw('verus! {\nglobal size_of usize == 8;')
    u.raw(MODELS, label='rule S4 model functions (trusted)')
    u.trust('rule S4 model functions: vec![vec![]; n] is n empty vectors; `for x in &mut v` visits v[0], v[1], ... in order and extend_from_slice appends; '
            'v.drain(..).map(Symbol::new).collect() wraps each vector in order; data.chunks(n) yields consecutive n-byte pieces, the last possibly shorter (std documented behaviour)')
    v_oti.int_div_ceil(u)
    v_part.partition(u, external=True)
    u.trust('partition contract: proved on the real body in V-PART; assumed here')
    u.raw('impl Symbol {')
    u.fn('src/symbol.rs', 'new', impl='impl Symbol', ret='r', ensures=['r.value == value'])
    u.fn('src/symbol.rs', 'as_bytes', impl='impl Symbol', ret='r', ensures=['r@ == self.value@'])
    u.raw('}')
    T, AL, N = 'config.symbol_size as int', 'config.symbol_alignment as int', 'config.num_sub_blocks as int'
    KK = '(data@.len() as int / (%s))' % T
    CONSTS = ('layout_ok(%s, %s, %s), data@.len() == (%s) * kk, 0 <= kk <= 56403, kk == %s, tl as int == tl_of(%s, %s, %s), ts as int == ts_of(%s, %s, %s),'
              ' nl as int == nl_of(%s, %s, %s), nl as int + ns as int == %s, symbols@.len() == kk,' % (T, AL, N, T, KK, T, AL, N, T, AL, N, T, AL, N, N))
    u.raw('pub struct SourceBlockEncoder { _p: () }\nimpl SourceBlockEncoder {', label='create_symbols is an associated function without self: the struct is not needed')
    u.fn('src/encoder.rs', 'create_symbols', impl='impl SourceBlockEncoder', ret='r', rules=['A1', 'D8'],
         requires=['layout_ok(%s, %s, %s)' % (T, AL, N), 'data@.len() as int %% (%s) == 0' % T, '%s <= 56403' % KK],
         ensures=['symbols_ok(r@, %s, %s, %s, data@)' % (T, AL, N)],
         resubst=[(r'vec!\[vec!\[\]; ([^\]]+)\]', r'verif_vec_of_empty(\1)', 'S4-vec-of-empty'),
                  (r'(\w+)\.drain\(\.\.\)\.map\(Symbol::new\)\.collect\(\)', r'verif_symbols_from_vecs(&mut \1)', 'S4-drain-map-collect'),
                  (r'(\w+)\.chunks\(([^)]*\(\)[^)]*)\)\s*\.map\(\|x\| Symbol::new\(Vec::from\(x\)\)\)\s*\.collect\(\)', r'verif_symbols_from_chunks(\1, \2)', 'S4-chunks-map-collect')],
         opt_subst=[('let mut offset = 0;', 'let mut offset: usize = 0;', 'type-annotation')],
         prepend=('let ghost kk: int = %s;\nproof { lemma_fundamental_div_mod(data@.len() as int, %s); assert(kk * (%s) == (%s) * kk) by (nonlinear_arith);'
                  ' lemma_fundamental_div_mod(%s, %s); lemma_partition((%s) / (%s), %s); lemma_layout(%s, %s, %s, 0);'
                  ' assert(kk >= 0) by (nonlinear_arith) requires data@.len() == (%s) * kk, %s >= 1; }') % (KK, T, T, T, T, AL, T, AL, N, T, AL, N, T, T),
         loops={
             0: {'spec': ('invariant ' + CONSTS + ' offset as int == kk * sym_off(%s, %s, %s, sub_block as int),'
                          ' forall |j: int| 0 <= j < kk ==> (#[trigger] symbols@[j])@ == sym_upto(%s, %s, %s, kk, data@, j, sub_block as nat),' % (T, AL, N, T, AL, N)),
                 'before': 'proof { assert(kk * 0 == 0) by (nonlinear_arith); }',
                 'body_top': 'proof { lemma_layout(%s, %s, %s, sub_block as int); }' % (T, AL, N)},
             1: {'before': ('proof { let so = sym_off(%s, %s, %s, sub_block as int); let by = sub_bytes(%s, %s, %s, sub_block as int);'
                            ' assert(tl as int * (config.symbol_alignment as int) == (config.symbol_alignment as int) * tl as int && ts as int * (config.symbol_alignment as int) == (config.symbol_alignment as int) * ts as int) by (nonlinear_arith);'
                            ' assert(bytes as int == by);'
                            ' assert(by * 0 == 0) by (nonlinear_arith); }') % (T, AL, N, T, AL, N),
                 'spec': ('invariant ' + CONSTS + ' (sub_block as int) < %s, bytes as int == sub_bytes(%s, %s, %s, sub_block as int),'
                          ' offset as int == dst_start(%s, %s, %s, kk, verif_i as int, sub_block as int), verif_i as int <= kk,'
                          ' forall |j: int| 0 <= j < verif_i as int ==> (#[trigger] symbols@[j])@ == sym_upto(%s, %s, %s, kk, data@, j, (sub_block + 1) as nat),'
                          ' forall |j: int| verif_i as int <= j < kk ==> (#[trigger] symbols@[j])@ == sym_upto(%s, %s, %s, kk, data@, j, sub_block as nat),'
                          % (N, T, AL, N, T, AL, N, T, AL, N, T, AL, N)),
                 'body_top': ('proof { lemma_dst_range(%s, %s, %s, kk, verif_i as int, sub_block as int); lemma_layout(%s, %s, %s, sub_block as int);'
                              ' assert(kk * (%s) == (%s) * kk) by (nonlinear_arith); }') % (T, AL, N, T, AL, N, T, T),
                 'body_bottom': ('proof { let by = sub_bytes(%s, %s, %s, sub_block as int); let ix = verif_i as int;'
                                 ' assert(by * (ix + 1) == by * ix + by) by (nonlinear_arith); }') % (T, AL, N),
                 'after': ('proof { let so = sym_off(%s, %s, %s, sub_block as int); let by = sub_bytes(%s, %s, %s, sub_block as int); let so1 = sym_off(%s, %s, %s, sub_block as int + 1);'
                           ' assert(kk * so1 == kk * so + by * kk) by (nonlinear_arith) requires so1 == so + by; }') % (T, AL, N, T, AL, N, T, AL, N)},
         },
         hint_inserts=[('verif_symbols_from_vecs(&mut symbols)', 'before',
                        'proof { assert(kk * (%s) == (%s) * kk) by (nonlinear_arith); }' % (T, T)),
                       ('verif_symbols_from_chunks(data,', 'before',
                        ('proof { lemma_ceil_div_exact(data@.len() as int, %s);'
                         ' assert forall |idx: int| 0 <= idx < kk implies #[trigger] chunk_of(data@, %s, idx) == symbol_spec(%s, %s, 1, kk, data@, idx) by { lemma_single_sub_block(%s, %s, kk, data@, idx);'
                         '   assert((idx + 1) * (%s) == idx * (%s) + (%s)) by (nonlinear_arith); assert((idx + 1) * (%s) <= kk * (%s)) by (nonlinear_arith) requires idx + 1 <= kk, %s >= 0; } }')
                        % (T, T, T, AL, T, AL, T, T, T, T, T, T))])
    u.raw('}')
    u.raw('} // verus!')
    return u
