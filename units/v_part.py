"""V-PART (C05): Partition[I,J] (src/base.rs partition), generic over Into<u32>, all inputs."""
from vunit import VUnit
import common
import v_oti

SPEC = r'''
verus! {
// Partition[I, J] of RFC 6330 4.4.1.2 characterised over mathematical integers
pub open spec fn partition_spec(i: int, j: int, r: (u32, u32, u32, u32)) -> bool {
    &&& r.0 as int == ceil_div(i, j)          // IL = ceil(I/J)
    &&& r.1 as int == i / j                   // IS = floor(I/J)
    &&& r.2 as int == i - (i / j) * j         // JL = I - IS*J
    &&& r.3 as int == j - r.2 as int          // JS = J - JL
    &&& r.2 as int + r.3 as int == j
    &&& r.2 as int * r.0 as int + r.3 as int * r.1 as int == i   // the pieces add up to I
    &&& 0 <= r.2 as int && (r.2 as int) < j && r.3 as int >= 1
    &&& (r.0 as int == r.1 as int || r.0 as int == r.1 as int + 1)
    &&& (r.2 as int > 0 ==> r.0 as int == r.1 as int + 1)
}
pub proof fn lemma_partition(i: int, j: int)
    requires 0 <= i, j >= 1,
    ensures
        0 <= i / j <= i,
        (i / j) * j <= i,
        i - (i / j) * j == i % j,
        0 <= i % j < j,
        ceil_div(i, j) == i / j + (if i % j == 0 { 0int } else { 1int }),
        (i % j) * ceil_div(i, j) + (j - i % j) * (i / j) == i,
        ceil_div(i, j) <= i || i == 0,
{
    lemma_fundamental_div_mod(i, j);
    lemma_mod_bound(i, j);
    lemma_div_pos_is_pos(i, j);
    lemma_ceil_div_exact(i, j);
    let q = i / j;
    let r = i % j;
    assert(j * q == q * j) by (nonlinear_arith);
    assert(q <= i) by (nonlinear_arith) requires i == q * j + r, j >= 1, q >= 0, r >= 0;
    if r == 0 {
        assert(r * ceil_div(i, j) + (j - r) * q == i) by (nonlinear_arith) requires r == 0, i == q * j + r;
    } else {
        assert(r * (q + 1) + (j - r) * q == q * j + r) by (nonlinear_arith);
        assert(q + 1 <= i) by (nonlinear_arith) requires i == q * j + r, j >= 1, q >= 0, r >= 1, r < j;
    }
}
} // verus!
'''


def partition(u, external=False):
    u.fn('src/base.rs', 'partition', ret='r',
         requires=['forall |jv: u32| call_ensures(<TJ as Into<u32>>::into, (j,), jv) ==> jv >= 1'],
         ensures=['exists |iv: u32, jv: u32| call_ensures(<TI as Into<u32>>::into, (i,), iv) && call_ensures(<TJ as Into<u32>>::into, (j,), jv)'
                  ' && partition_spec(iv as int, jv as int, r)'],
         inserts=[('let il = int_div_ceil', 'before', 'proof { lemma_partition(i as int, j as int); }'),
                  ('(il, is, jl, js)', 'before',
                   'proof { assert(is as int * j as int == (i as int / j as int) * j as int); assert(partition_spec(i as int, j as int, (il, is, jl, js))); }')],
         external_body=external)


def build():
    u = VUnit('V-PART')
    u.raw(common.PRELUDE)
    u.raw(common.ARITH)
    u.raw(common.STD_SPECS)
    for t in common.STD_TRUST:
        u.trust(t)
    u.raw(SPEC)
    u.raw('verus! {')
    v_oti.int_div_ceil(u)
    partition(u)
    # instantiation check (also a reachability check of the generic contract): the call sites' argument types
    u.raw(r'''
fn partition_call_sites(kt: u32, z: u8, t_over_al: u32, n: u16)
    requires z >= 1, n >= 1,
{
    let r = partition(kt, z);
    assert(partition_spec(kt as int, z as int, r));
    let r2 = partition(t_over_al, n);
    assert(partition_spec(t_over_al as int, n as int, r2));
}
''', label='instantiation of the generic contract at the call-site types (u32,u8) and (u32,u16)')
    u.raw('} // verus!')
    return u
