"""V-ENCNEW (C05, C18, C01 encoder side): Encoder::new cuts the object into blocks, zero-pads only the tail of the last block,
numbers the block encoders 0..Z-1 and builds each from exactly its block's bytes with a plan for its symbol count."""
from vunit import VUnit
import common
import v_blocks, v_part

SPEC = r'''
verus! {
pub uninterp spec fn plan_ops(k: int) -> int;    // identity of the plan generated for k symbols (generate is deterministic in k)
pub open spec fn plan_for(p: SourceBlockEncodingPlan, k: u16) -> bool { p.source_symbol_count == k && p.tag == plan_ops(k as int) }
// the block encoder built from (block number, configuration, block bytes, plan): an uninterpreted function of exactly these
pub uninterp spec fn sbe_of(id: u8, c: ObjectTransmissionInformation, block: Seq<u8>, k: int) -> SourceBlockEncoder;
// bytes of block b: the object followed by zeros, cut at the block offsets (only the tail of the last block can reach the zeros)
pub open spec fn padded_obj(data: Seq<u8>, c: ObjectTransmissionInformation) -> Seq<u8> {
    data + Seq::new((kt_of(c) * c.symbol_size as int - data.len()) as nat, |i: int| 0u8)
}
pub open spec fn block_bytes(data: Seq<u8>, c: ObjectTransmissionInformation, blocks: Seq<(usize, usize)>, b: int) -> Seq<u8> {
    padded_obj(data, c).subrange(blocks[b].0 as int, blocks[b].1 as int)
}
pub open spec fn enc_blocks_ok(e: Seq<SourceBlockEncoder>, data: Seq<u8>, c: ObjectTransmissionInformation, blocks: Seq<(usize, usize)>, n: int) -> bool {
    forall |b: int| 0 <= b < n ==> #[trigger] e[b] == sbe_of(b as u8, c, block_bytes(data, c, blocks, b), (blocks[b].1 - blocks[b].0) / c.symbol_size as int)
}
pub proof fn lemma_block_facts(c: ObjectTransmissionInformation, blocks: Seq<(usize, usize)>, b: int, dlen: int)
    requires cfg_ok(c), blocks_ok(blocks, c), 0 <= b < c.num_source_blocks, kt_of(c) >= c.num_source_blocks as int, dlen == c.transfer_length as int,
    ensures ({ let s = blocks[b].0 as int; let e = blocks[b].1 as int; let t = c.symbol_size as int;
               0 <= s <= e && s <= dlen && e <= kt_of(c) * t && (e - s) % t == 0 && 1 <= (e - s) / t <= 56403 && dlen <= kt_of(c) * t }),
{
    let kt = kt_of(c); let z = c.num_source_blocks as int; let t = c.symbol_size as int;
    lemma_kt_bounds(c);
    lemma_partition(kt, z);
    lemma_ceil_div_le(kt, z, 56403);
    let kl = ceil_div(kt, z); let ks = kt / z; let zl = kt - ks * z;
    assert(ks >= 1) by { lemma_div_is_ordered(z, kt, z); lemma_div_basics(z); }
    lemma_bs_step(b, kl, ks, zl, z, t);
    let s = blocks[b].0 as int; let e = blocks[b].1 as int;
    let k = if b < zl { kl } else { ks };
    assert(e - s == k * t);
    lemma_div_multiples_vanish(k, t); lemma_mul_is_commutative(k, t); lemma_mod_multiples_basic(k, t);
    assert(k * t >= t) by (nonlinear_arith) requires k >= 1, t >= 1;
    assert(kt * t - t == (kt - 1) * t) by (nonlinear_arith);
    if c.transfer_length == 0 { assert(kt == 0) by { lemma_basic_div(t - 1, t); } }
    assert(s <= (kt - 1) * t);
    assert(0 <= s <= e);
    assert(e <= kt * t);
    assert(s <= dlen);
    assert((e - s) % t == 0);
    assert((e - s) / t == k);
    assert(1 <= k <= 56403);
}
#[verifier::external_body]
fn verif_vec_from_slice(s: &[u8]) -> (r: Vec<u8>) ensures r@ == s@ { unimplemented!() }
#[verifier::external_body]
fn verif_extend_vec(v: &mut Vec<u8>, b: Vec<u8>) ensures final(v)@ == old(v)@ + b@ { unimplemented!() }
} // verus!
'''


def build():
    u = VUnit('V-ENCNEW')
    u.raw(common.PRELUDE)
    u.raw(common.ARITH)
    u.raw(common.STD_SPECS)
    for t in common.STD_TRUST:
        u.trust(t)
    u.raw('verus! {')
    v_blocks.oti_struct_and_accessors(u)
    u.raw('''
#[verifier::external_body] pub struct SourceBlockEncoder { _p: () }
pub struct SourceBlockEncodingPlan { pub tag: int_tag, pub source_symbol_count: u16 }
pub type int_tag = Ghost<int>;
''', label='opaque block encoder; plan reduced to its symbol count + a ghost identity')
    u.struct('src/encoder.rs', 'Encoder')
    u.raw('} // verus!')
    u.raw(v_part.SPEC)
    u.raw(v_blocks.SPEC)
    u.raw(v_blocks.SPEC_LEMMAS)
    u.raw(SPEC.replace('p.tag == plan_ops(k as int)', 'p.tag@ == plan_ops(k as int)'))
    u.trust('Vec::from(&[u8]) copies the slice; Vec::extend(Vec<u8>) appends (rules S1/S2 model functions); vec![0; n] is n zero bytes')
    u.trust('SourceBlockEncodingPlan::generate(k) is deterministic in k; SourceBlockEncoder::with_encoding_plan is a function of (id, config, block bytes, plan) and refuses a plan for another symbol count: external here')
    u.trust('calculate_block_offsets contract (blocks_ok): proved on the real body in V-BLOCKS; assumed here')
    u.raw('verus! {')
    u.raw('''
#[verifier::external_body]
fn calculate_block_offsets(data: &[u8], config: &ObjectTransmissionInformation) -> (blocks: Vec<(usize, usize)>)
    requires cfg_ok(*config), data@.len() == config.transfer_length as int,
    ensures blocks_ok(blocks@, *config),
{ unimplemented!() }
impl SourceBlockEncodingPlan {
    #[verifier::external_body]
    pub fn generate(symbol_count: u16) -> (r: SourceBlockEncodingPlan) ensures plan_for(r, symbol_count) { unimplemented!() }
}
impl SourceBlockEncoder {
    #[verifier::external_body]
    pub fn with_encoding_plan(source_block_id: u8, config: &ObjectTransmissionInformation, data: &[u8], plan: &SourceBlockEncodingPlan) -> (r: SourceBlockEncoder)
        requires config.symbol_size >= 1, (data@.len() as int) % (config.symbol_size as int) == 0, plan_for(*plan, ((data@.len() as int) / (config.symbol_size as int)) as u16),
                 (data@.len() as int) / (config.symbol_size as int) <= 56403,
        ensures r == sbe_of(source_block_id, *config, data@, data@.len() as int / config.symbol_size as int),
    { unimplemented!() }
}
''', label='external callees of Encoder::new')
    u.raw('impl Encoder {')
    u.fn('src/encoder.rs', 'new', impl='impl Encoder', ret='r', rules=['D1c'], opt_rules=['D4g'],
         requires=['cfg_ok(config)', 'data@.len() == config.transfer_length as int', 'kt_of(config) >= config.num_source_blocks as int'],
         ensures=['r.config == config', 'r.blocks@.len() == config.num_source_blocks as int',
                  'exists |blocks: Seq<(usize, usize)>| blocks_ok(blocks, config) && #[trigger] enc_blocks_ok(r.blocks@, data@, config, blocks, config.num_source_blocks as int)'],
         opt_subst=[('padded = Vec::from(&data[start..]);', 'padded = verif_vec_from_slice(&data[start..]);', 'S1-vec-from-slice'),
                    ('padded.extend(vec![0; end - data.len()]);', 'verif_extend_vec(&mut padded, vec![0u8; end - data.len()]);', 'S2-extend-vec'),
                    ('let mut block_encoders = vec![];', 'let mut block_encoders: Vec<SourceBlockEncoder> = vec![];', 'type-annotation'),
                    ('let mut padded;', 'let mut padded: Vec<u8>;', 'type-annotation')],
         loops={0: {'spec': ('invariant cfg_ok(config), data@.len() == config.transfer_length as int, kt_of(config) >= config.num_source_blocks as int, blocks_ok(verif_v@, config),'
                             ' block_encoders@.len() == i as int, enc_blocks_ok(block_encoders@, data@, config, verif_v@, i as int),'
                             ' (cached_plan.is_some() ==> plan_for(cached_plan.unwrap(), cached_plan.unwrap().source_symbol_count)),'),
                    'body_top': 'proof { lemma_block_facts(config, verif_v@, i as int, data@.len() as int); }'}},
         inserts=[('block_encoders.push(SourceBlockEncoder::with_encoding_plan(', 'before',
                   'proof { assert(block@ =~= block_bytes(data@, config, verif_v@, i as int)); }\n let ghost verif_prev = block_encoders@;')],
         opt_inserts=[])
    u.raw('}')
    u.raw('} // verus!')
    return u
