"""V-RNG (C15/C04): Rand[y, i, m] of RFC 6330 5.3.5.1 on the extracted function, all y, i, m (integer arithmetic, so Verus)."""
from vunit import VUnit
import common

SPEC = r'''
verus! {
// Rand[y, i, m] over mathematical integers, RFC 6330 5.3.5.1
pub open spec fn rand_x(y: int, i: int, k: int) -> int { ((y / pow256(k)) + i) % 256 }
pub open spec fn pow256(k: int) -> int { if k == 0 { 1 } else if k == 1 { 256 } else if k == 2 { 65536 } else { 16777216 } }
pub open spec fn rand_value(y: u32, i: u32) -> u32 {
    V0[rand_x(y as int, i as int, 0)] ^ V1[rand_x(y as int, i as int, 1)] ^ V2[rand_x(y as int, i as int, 2)] ^ V3[rand_x(y as int, i as int, 3)]
}
pub open spec fn rand_spec(y: u32, i: u32, m: u32) -> int { rand_value(y, i) as int % m as int }
pub proof fn lemma_shift_is_div(y: u32)
    ensures (y >> 8) as int == y as int / 256, (y >> 16) as int == y as int / 65536, (y >> 24) as int == y as int / 16777216,
{
    assert(y >> 8 == y / 256) by (bit_vector);
    assert(y >> 16 == y / 65536) by (bit_vector);
    assert(y >> 24 == y / 16777216) by (bit_vector);
}
// Deg[v] (5.3.5.2): d with f[d-1] <= v < f[d], capped at W-2; table written out from the RFC
pub open spec fn deg_f(d: int) -> int {
    if d == 0 { 0 } else if d == 1 { 5243 } else if d == 2 { 529531 } else if d == 3 { 704294 } else if d == 4 { 791675 } else if d == 5 { 844104 }
    else if d == 6 { 879057 } else if d == 7 { 904023 } else if d == 8 { 922747 } else if d == 9 { 937311 } else if d == 10 { 948962 }
    else if d == 11 { 958494 } else if d == 12 { 966438 } else if d == 13 { 973160 } else if d == 14 { 978921 } else if d == 15 { 983914 }
    else if d == 16 { 988283 } else if d == 17 { 992138 } else if d == 18 { 995565 } else if d == 19 { 998631 } else if d == 20 { 1001391 }
    else if d == 21 { 1003887 } else if d == 22 { 1006157 } else if d == 23 { 1008229 } else if d == 24 { 1010129 } else if d == 25 { 1011876 }
    else if d == 26 { 1013490 } else if d == 27 { 1014983 } else if d == 28 { 1016370 } else if d == 29 { 1017662 } else { 1048576 }
}
pub open spec fn deg_spec(v: int, w: int, d: int) -> bool {
    exists |dd: int| 1 <= dd <= 30 && deg_f(dd - 1) <= v && v < #[trigger] deg_f(dd) && d == (if dd < w - 2 { dd } else { w - 2 })
}
// Tuple[K', X] (5.3.5.4) over mathematical integers
pub open spec fn tuple_a(j: int) -> int { let a = 53591 + j * 997; if a % 2 == 0 { a + 1 } else { a } }
pub open spec fn tuple_y(j: int, x: int) -> int { (10267 * (j + 1) + x * tuple_a(j)) % 4294967296 }
pub open spec fn tuple_spec(x: u32, w: u32, j: u32, p1: u32, t: (u32, u32, u32, u32, u32, u32)) -> bool {
    let y = tuple_y(j as int, x as int) as u32;
    &&& deg_spec(rand_spec(y, 0, 1048576), w as int, t.0 as int)
    &&& t.1 as int == 1 + rand_spec(y, 1, (w - 1) as u32)
    &&& t.2 as int == rand_spec(y, 2, w)
    &&& t.3 as int == (if t.0 < 4 { 2 + rand_spec(x, 3, 2) } else { 2 })
    &&& t.4 as int == 1 + rand_spec(x, 4, (p1 - 1) as u32)
    &&& t.5 as int == rand_spec(x, 5, p1)
}
} // verus!
'''


def rand_fn(u, external=False):
    u.fn('src/rng.rs', 'rand', ret='r',
         requires=['m > 0', 'forall |iv: u32| call_ensures(<TI as Into<u32>>::into, (i,), iv) ==> iv <= 7'],
         ensures=['exists |iv: u32| call_ensures(<TI as Into<u32>>::into, (i,), iv) && r as int == rand_spec(y, iv, m)', 'r < m'],
         rules=['A1'],
         inserts=[('let x0 =', 'before', 'proof { lemma_shift_is_div(y); lemma_mod_multiples_vanish(-16777216, y as int + i as int, 256); assert(256 * (-16777216) + (y as int + i as int) == y as int + i as int - 4294967296); }'),
                  ('(V0[x0 as usize] ^', 'before', 'proof { assert(x0 as int == rand_x(y as int, i as int, 0)); assert(x1 as int == rand_x(y as int, i as int, 1)); assert(x2 as int == rand_x(y as int, i as int, 2)); assert(x3 as int == rand_x(y as int, i as int, 3));'
                   ' assert((V0[x0 as int] ^ V1[x1 as int] ^ V2[x2 as int] ^ V3[x3 as int]) == rand_value(y, i));'
                   ' assert(((V0[x0 as int] ^ V1[x1 as int] ^ V2[x2 as int] ^ V3[x3 as int]) % m) as int == rand_spec(y, i, m)); }')],
         external_body=external)


def build():
    u = VUnit('V-RNG')
    u.raw(common.PRELUDE)
    u.raw(common.STD_SPECS.replace('pub assume_specification[ u64::div_ceil ](a: u64, b: u64) -> (r: u64)\n    requires b != 0,\n    ensures r as int == ceil_div(a as int, b as int);', ''))
    u.trust('assume_specification <T as From<T>>::from: identity (core blanket impl)')
    u.raw('verus! {')
    for t in ('V0', 'V1', 'V2', 'V3'):
        u.const('src/rng.rs', t)
    u.raw('} // verus!')
    u.raw(SPEC)
    u.raw('verus! {')
    rand_fn(u)
    u.raw(r'''
fn rand_call_sites(y: u32, m: u32)
    requires m > 0,
{
    let r = rand(y, 5u32, m);
    assert(r as int == rand_spec(y, 5, m));
}
''', label='instantiation of the generic contract at the call-site type u32')
    u.raw('fn min(a: u32, b: u32) -> (r: u32) ensures r == (if a <= b { a } else { b }) { if a <= b { a } else { b } }', label='std::cmp::min model (rule S1)')
    u.trust('std::cmp::min on u32 (rule S1 model)')
    u.fn('src/base.rs', 'deg', ret='r', rules=['A1'],
         requires=['v < 1048576', 'lt_symbols >= 3'],
         ensures=['deg_spec(v as int, lt_symbols as int, r as int)', '1 <= r <= 30', 'r <= lt_symbols - 2'],
         inserts=[('for d in 1..f.len()', 'before', 'proof { assert forall |k: int| 0 <= k <= 30 implies #[trigger] f@[k] as int == deg_f(k) by { } }')],
         loops={0: {'spec': 'invariant v < 1048576, lt_symbols >= 3, f@.len() == 31, forall |k: int| 0 <= k <= 30 ==> #[trigger] f@[k] as int == deg_f(k), 1 <= d, forall |k: int| 0 <= k < d as int ==> deg_f(k) <= v as int,',
                    'body_top': 'proof { if v < f@[d as int] { assert(deg_f(d as int - 1) <= v as int && (v as int) < deg_f(d as int)); } }'}})
    u.fn('src/base.rs', 'intermediate_tuple', ret='r',
         requires=['lt_symbols >= 17', 'systematic_index <= 1000', 'p1 >= 11'],
         ensures=['tuple_spec(internal_symbol_id, lt_symbols, systematic_index, p1, r)',
                  '1 <= r.0 <= 30 && r.0 <= lt_symbols - 2', '1 <= r.1 < lt_symbols', 'r.2 < lt_symbols', 'r.3 == 2 || r.3 == 3', '1 <= r.4 < p1', 'r.5 < p1'],
         inserts=[('let y: u32 =', 'before',
                   'proof { assert(A as int == tuple_a(J as int)); assert(B as int == 10267 * (J as int + 1));'
                   ' assert(internal_symbol_id as int * A as int <= 0xffff_ffff * 0xffff_ffff) by (nonlinear_arith) requires internal_symbol_id <= 0xffff_ffff, A <= 0xffff_ffff;'
                   ' lemma_mod_bound(B as int + internal_symbol_id as int * A as int, 4294967296); }'),
                  ('let v = rand(y, 0u32, 1048576);', 'before', 'proof { assert(y as int == tuple_y(J as int, internal_symbol_id as int)); }')])
    u.raw('} // verus!')
    return u
