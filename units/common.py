"""shared Verus text: prelude, arithmetic spec functions, std assume_specifications (rule S1)"""

PRELUDE = r'''
#![allow(unused_imports, unused_variables, unused_mut, dead_code, non_snake_case, unused_parens, unused_assignments, unreachable_code, non_upper_case_globals)]
use vstd::prelude::*;
use vstd::arithmetic::div_mod::*;
use vstd::arithmetic::mul::*;
fn main() {}
'''

ARITH = r'''
verus! {
pub open spec fn ceil_div(a: int, b: int) -> int {
    (a + b - 1) / b
}
pub proof fn lemma_ceil_div_exact(a: int, b: int)
    requires a >= 0, b > 0,
    ensures
        a % b == 0 ==> ceil_div(a, b) == a / b,
        a % b != 0 ==> ceil_div(a, b) == a / b + 1,
        ceil_div(a, b) >= 0,
        ceil_div(a, b) * b >= a,
        (ceil_div(a, b) - 1) * b < a || a == 0,
        a / b >= 0,
{
    lemma_fundamental_div_mod(a, b);
    let q = a / b;
    let r = a % b;
    lemma_mod_bound(a, b);
    lemma_div_pos_is_pos(a, b);
    assert(b * q == q * b) by (nonlinear_arith);
    if r == 0 {
        assert(a + b - 1 == q * b + (b - 1));
        lemma_fundamental_div_mod_converse(a + b - 1, b, q, b - 1);
    } else {
        assert((q + 1) * b == q * b + b) by (nonlinear_arith);
        assert(a + b - 1 == (q + 1) * b + (r - 1));
        lemma_fundamental_div_mod_converse(a + b - 1, b, q + 1, r - 1);
    }
    let k = ceil_div(a, b);
    assert(k * b >= a) by (nonlinear_arith)
        requires a == q * b + r, 0 <= r < b, (r == 0 ==> k == q), (r != 0 ==> k == q + 1);
    assert((k - 1) * b < a || a == 0) by (nonlinear_arith)
        requires a == q * b + r, 0 <= r < b, b > 0, (r == 0 ==> k == q), (r != 0 ==> k == q + 1), a >= 0, q >= 0;
}
pub proof fn lemma_ceil_div_le(a: int, b: int, c: int)
    requires a >= 0, b > 0, c >= 0,
    ensures ceil_div(a, b) <= c <==> a <= b * c,
{
    lemma_ceil_div_exact(a, b);
    let k = ceil_div(a, b);
    if k <= c {
        assert(a <= b * c) by (nonlinear_arith) requires k * b >= a, k <= c, b > 0;
    }
    if a <= b * c && k > c {
        assert((k - 1) * b >= c * b) by (nonlinear_arith) requires k - 1 >= c, b > 0;
        assert(c * b == b * c) by (nonlinear_arith);
        assert(a > 0) by { if a == 0 { lemma_div_basics(b); assert(k == (b - 1) / b); lemma_basic_div(b - 1, b); } }
    }
}
pub proof fn lemma_trunc_u64_u32(x: u64)
    ensures (#[verifier::truncate] (x as u32)) as int == (x as int) % 0x1_0000_0000,
{
    let r = #[verifier::truncate] (x as u32);
    assert(r == x % 0x1_0000_0000) by (bit_vector) requires r == #[verifier::truncate] (x as u32);
}
pub proof fn lemma_ceil_div_mono(a1: int, a2: int, b: int)
    requires 0 <= a1 <= a2, b > 0,
    ensures ceil_div(a1, b) <= ceil_div(a2, b),
{
    lemma_div_is_ordered(a1 + b - 1, a2 + b - 1, b);
}
}

'''

STD_SPECS = r'''
verus! {
// rule S1: std functions without a vstd specification; documented behaviour assumed (trusted)
pub assume_specification[ u64::div_ceil ](a: u64, b: u64) -> (r: u64)
    requires b != 0,
    ensures r as int == ceil_div(a as int, b as int);
// Option::map_or(default, f): default for None, f(x) for Some(x)
pub assume_specification<T, U, F: FnOnce(T) -> U>[ Option::<T>::map_or ](o: Option<T>, default: U, f: F) -> (r: U)
    requires o.is_some() ==> f.requires((o.unwrap(),)),
    ensures o.is_none() ==> r == default, o.is_some() ==> f.ensures((o.unwrap(),), r);
// core's blanket `impl<T> From<T> for T` is the identity
pub assume_specification<T>[ <T as core::convert::From<T>>::from ](a: T) -> (r: T) ensures r == a;
} // verus!
'''
STD_TRUST = ['assume_specification Option::map_or: default for None, f(x) for Some(x) (std documented behaviour)', 'assume_specification <T as From<T>>::from: identity (core blanket impl)', 'assume_specification u64::div_ceil: result == ceil(a/b), panics iff b == 0 (std documented behaviour)', 'vstd std_specs (u64::is_multiple_of etc.): part of the Verus standard library specifications']
