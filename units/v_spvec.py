"""V-SPVEC (C16): SparseBinaryVec, the sparse row of SparseBinaryMatrix, against its abstract view (the set of column keys that hold a one):
get / insert / remove for all keys; representation invariant: keys strictly increasing."""
from vunit import VUnit
import common

SPEC = r'''
verus! {
pub open spec fn sv_wf(v: SparseBinaryVec) -> bool { forall |a: int, b: int| 0 <= a < b < v.elements@.len() ==> v.elements@[a] < v.elements@[b] }
pub open spec fn sv_has(v: SparseBinaryVec, k: u16) -> bool { v.elements@.contains(k) }
// rule S5: <[u16]>::binary_search on a strictly increasing slice (std documented behaviour)
#[verifier::external_body]
fn verif_binary_search_u16(v: &Vec<u16>, x: u16) -> (r: Result<usize, usize>)
    requires forall |a: int, b: int| 0 <= a < b < v@.len() ==> v@[a] < v@[b],
    ensures match r {
        Ok(i) => (i as int) < v@.len() && v@[i as int] == x,
        Err(i) => (i as int) <= v@.len() && (forall |k: int| 0 <= k < i as int ==> v@[k] < x) && (forall |k: int| i as int <= k < v@.len() ==> v@[k] > x),
    },
{ unimplemented!() }
pub proof fn lemma_has_after_insert(o: Seq<u16>, idx: int, x: u16, k: u16)
    requires 0 <= idx <= o.len(),
    ensures o.insert(idx, x).contains(k) == (k == x || o.contains(k)),
{
    let n = o.insert(idx, x);
    if o.contains(k) { let q = choose |q: int| 0 <= q < o.len() && o[q] == k; if q < idx { assert(n[q] == k); } else { assert(n[q + 1] == k); } }
    if k == x { assert(n[idx] == k); }
    if n.contains(k) { let q = choose |q: int| 0 <= q < n.len() && n[q] == k; if q < idx { assert(o[q] == k); } else if q > idx { assert(o[q - 1] == k); } }
}
pub proof fn lemma_has_after_remove(o: Seq<u16>, idx: int, k: u16)
    requires 0 <= idx < o.len(), forall |a: int, b: int| 0 <= a < b < o.len() ==> o[a] < o[b],
    ensures o.remove(idx).contains(k) == (k != o[idx] && o.contains(k)),
{
    let n = o.remove(idx);
    if o.contains(k) && k != o[idx] { let q = choose |q: int| 0 <= q < o.len() && o[q] == k; if q < idx { assert(n[q] == k); } else { assert(n[q - 1] == k); } }
    if n.contains(k) { let q = choose |q: int| 0 <= q < n.len() && n[q] == k; if q < idx { assert(o[q] == k); } else { assert(o[q + 1] == k); } }
}
} // verus!
'''


def spvec(u):
    """SparseBinaryVec under contract (also used by V-SPMAT)"""
    IMPL = 'impl SparseBinaryVec'
    u.raw('impl SparseBinaryVec {')
    u.fn('src/sparse_vec.rs', 'key_to_internal_index', impl=IMPL, ret='r',
         subst=[('self.elements.binary_search(&i)', 'verif_binary_search_u16(&self.elements, i)', 'S5-binary-search')],
         requires=['sv_wf(*self)'],
         ensures=['match r { Ok(x) => (x as int) < self.elements@.len() && self.elements@[x as int] == i,'
                  ' Err(x) => (x as int) <= self.elements@.len() && (forall |k: int| 0 <= k < x as int ==> self.elements@[k] < i) && (forall |k: int| x as int <= k < self.elements@.len() ==> self.elements@[k] > i) }'])
    u.fn('src/sparse_vec.rs', 'len', impl=IMPL, ret='r', ensures=['r == self.elements@.len()'])
    u.fn('src/sparse_vec.rs', 'get_by_raw_index', impl=IMPL, ret='r', requires=['(i as int) < self.elements@.len()'],
         ensures=['r.0 == self.elements@[i as int] as usize', 'r.1.value == 1'])
    u.fn('src/sparse_vec.rs', 'get', impl=IMPL, ret='r',
         requires=['sv_wf(*self)', 'i < 65536'],
         ensures=['r.is_some() == sv_has(*self, i as u16)', 'r.is_some() ==> r.unwrap().value == 1'])
    u.fn('src/sparse_vec.rs', 'remove', impl=IMPL, ret='r',
         requires=['sv_wf(*old(self))', 'i < 65536'],
         ensures=['sv_wf(*final(self))', 'r.is_some() == sv_has(*old(self), i as u16)',
                  'forall |k: u16| sv_has(*final(self), k) == (k != i as u16 && sv_has(*old(self), k))'],
         hint_inserts=[('self.elements.remove(index);', 'before',
                        'proof { assert forall |k: u16| self.elements@.remove(index as int).contains(k) == (k != i as u16 && self.elements@.contains(k)) by { lemma_has_after_remove(self.elements@, index as int, k); } }'),
                       ('Err(_) => None,', 'replace',
                        'Err(verif_e) => { proof { assert(!self.elements@.contains(i as u16)) by { if self.elements@.contains(i as u16) { let q = choose |q: int| 0 <= q < self.elements@.len() && self.elements@[q] == i as u16; } } } None }')])
    u.fn('src/sparse_vec.rs', 'insert', impl=IMPL, ret='r', rules=['A1'],
         requires=['sv_wf(*old(self))', 'i < 65536'],
         ensures=['sv_wf(*final(self))', 'forall |k: u16| sv_has(*final(self), k) == (if k == i as u16 { value.value != 0 } else { sv_has(*old(self), k) })'],
         hint_inserts=[('Err(index) => self.elements.insert(index, i as u16),', 'replace',
                        'Err(index) => { proof { assert forall |k: u16| self.elements@.insert(index as int, i as u16).contains(k) == (k == i as u16 || self.elements@.contains(k)) by { lemma_has_after_insert(self.elements@, index as int, i as u16, k); }'
                        ' assert(!self.elements@.contains(i as u16)) by { if self.elements@.contains(i as u16) { let q = choose |q: int| 0 <= q < self.elements@.len() && self.elements@[q] == i as u16; } } }'
                        ' self.elements.insert(index, i as u16) },')])
    u.raw('}')


def build():
    u = VUnit('V-SPVEC')
    u.raw(common.PRELUDE)
    u.raw(common.ARITH)
    u.raw('verus! {')
    u.struct('src/octet.rs', 'Octet', prefix='#[derive(PartialEq, Eq, Structural)]\n')
    u.raw('''impl Octet {
    pub fn zero() -> (r: Octet) ensures r.value == 0 { Octet { value: 0 } }
    pub fn one() -> (r: Octet) ensures r.value == 1 { Octet { value: 1 } }
}''', label='Octet::zero / one (trivial constructors, re-stated)')
    u.struct('src/sparse_vec.rs', 'SparseBinaryVec')
    u.raw('} // verus!')
    u.raw(SPEC)
    u.trust('rule S5: <[u16]>::binary_search on a strictly increasing slice returns Ok(position) or Err(insertion point) (std documented behaviour)')
    u.raw('verus! {')
    spvec(u)
    u.raw('} // verus!')
    return u
