"""V-SPVEC (C16): SparseBinaryVec, the sparse row of SparseBinaryMatrix, against its abstract view (the set of column keys that hold a one):
get / insert / remove for all keys; representation invariant: keys strictly increasing."""
from vunit import VUnit
import common

SPEC = r'''
verus! {
pub open spec fn sv_wf(v: SparseBinaryVec) -> bool { forall |a: int, b: int| 0 <= a < b < v.elements@.len() ==> v.elements@[a] < v.elements@[b] }
pub open spec fn sv_has(v: SparseBinaryVec, k: u16) -> bool { v.elements@.contains(k) }
// rule S5: <[u16]>::binary_search on a strictly increasing slice (std documented behaviour)
#[verifier::external_body]
fn verif_binary_search_u16(v: &Vec<u16>, x: u16) -> (r: Result<usize, usize>)
    requires forall |a: int, b: int| 0 <= a < b < v@.len() ==> v@[a] < v@[b],
    ensures match r {
        Ok(i) => (i as int) < v@.len() && v@[i as int] == x,
        Err(i) => (i as int) <= v@.len() && (forall |k: int| 0 <= k < i as int ==> v@[k] < x) && (forall |k: int| i as int <= k < v@.len() ==> v@[k] > x),
    },
{ unimplemented!() }
pub proof fn lemma_has_after_insert(o: Seq<u16>, idx: int, x: u16, k: u16)
    requires 0 <= idx <= o.len(),
    ensures o.insert(idx, x).contains(k) == (k == x || o.contains(k)),
{
    let n = o.insert(idx, x);
    if o.contains(k) { let q = choose |q: int| 0 <= q < o.len() && o[q] == k; if q < idx { assert(n[q] == k); } else { assert(n[q + 1] == k); } }
    if k == x { assert(n[idx] == k); }
    if n.contains(k) { let q = choose |q: int| 0 <= q < n.len() && n[q] == k; if q < idx { assert(o[q] == k); } else if q > idx { assert(o[q - 1] == k); } }
}
pub proof fn lemma_has_after_remove(o: Seq<u16>, idx: int, k: u16)
    requires 0 <= idx < o.len(), forall |a: int, b: int| 0 <= a < b < o.len() ==> o[a] < o[b],
    ensures o.remove(idx).contains(k) == (k != o[idx] && o.contains(k)),
{
    let n = o.remove(idx);
    if o.contains(k) && k != o[idx] { let q = choose |q: int| 0 <= q < o.len() && o[q] == k; if q < idx { assert(n[q] == k); } else { assert(n[q - 1] == k); } }
    if n.contains(k) { let q = choose |q: int| 0 <= q < n.len() && n[q] == k; if q < idx { assert(o[q] == k); } else { assert(o[q + 1] == k); } }
}
} // verus!
'''


MERGE_SPEC = r'''verus! {
// rule X1 model: slice::Iter::<u16>::next as a cursor
#[verifier::external_body]
fn verif_next_u16<'a>(v: &'a Vec<u16>, pos: &mut usize) -> (r: Option<&'a u16>)
    requires *old(pos) <= v@.len(),
    ensures (*old(pos) as int) < v@.len() ==> r.is_some() && *r.unwrap() == v@[*old(pos) as int] && *final(pos) == *old(pos) + 1,
            (*old(pos) as int) >= v@.len() ==> r.is_none() && *final(pos) == *old(pos),
{ unimplemented!() }
pub proof fn lemma_sorted_ge_index(s: Seq<u16>, i: int)
    requires forall |x: int, y: int| 0 <= x < y < s.len() ==> s[x] < s[y], 0 <= i < s.len(),
    ensures s[i] as int >= i,
    decreases i,
{ if i > 0 { lemma_sorted_ge_index(s, i - 1); assert(s[i - 1] < s[i]); } }
pub proof fn lemma_sorted_len(s: Seq<u16>)
    requires forall |x: int, y: int| 0 <= x < y < s.len() ==> s[x] < s[y],
    ensures s.len() <= 65536,
{ if s.len() > 0 { lemma_sorted_ge_index(s, s.len() as int - 1); } }
pub proof fn lemma_prefix_has(s: Seq<u16>, n: int, k: u16)
    requires 0 <= n < s.len(),
    ensures s.subrange(0, n + 1).contains(k) == (s.subrange(0, n).contains(k) || k == s[n]),
{
    let p0 = s.subrange(0, n); let p1 = s.subrange(0, n + 1);
    if p0.contains(k) { let q = choose |q: int| 0 <= q < p0.len() && p0[q] == k; assert(p1[q] == k); }
    if k == s[n] { assert(p1[n] == k); }
    if p1.contains(k) { let q = choose |q: int| 0 <= q < p1.len() && p1[q] == k; if q < n { assert(p0[q] == k); } }
}
pub proof fn lemma_below_not_in_prefix(s: Seq<u16>, n: int, v: u16)
    requires 0 <= n <= s.len(), forall |x: int| 0 <= x < n ==> #[trigger] s[x] < v,
    ensures !s.subrange(0, n).contains(v),
{
    let p0 = s.subrange(0, n);
    if p0.contains(v) { let q = choose |q: int| 0 <= q < p0.len() && p0[q] == v; assert(s[q] < v); }
}
pub proof fn lemma_push_has_u16(r0: Seq<u16>, x: u16, k: u16)
    ensures r0.push(x).contains(k) == (r0.contains(k) || k == x),
{
    let r1 = r0.push(x);
    if r0.contains(k) { let q = choose |q: int| 0 <= q < r0.len() && r0[q] == k; assert(r1[q] == k); }
    if k == x { assert(r1[r0.len() as int] == k); }
    if r1.contains(k) { let q = choose |q: int| 0 <= q < r1.len() && r1[q] == k; if q < r0.len() { assert(r0[q] == k); } }
}
pub proof fn lemma_all_below_not_has(r0: Seq<u16>, v: u16)
    requires forall |x: int| 0 <= x < r0.len() ==> #[trigger] r0[x] < v,
    ensures !r0.contains(v),
{
    if r0.contains(v) { let q = choose |q: int| 0 <= q < r0.len() && r0[q] == v; assert(r0[q] < v); }
}
// v sits strictly between the consumed part and the head of a sorted sequence: it is not in it at all
pub proof fn lemma_gap_not_in(s: Seq<u16>, n: int, v: u16)
    requires 0 <= n <= s.len(), forall |x: int, y: int| 0 <= x < y < s.len() ==> s[x] < s[y],
             forall |x: int| 0 <= x < n ==> #[trigger] s[x] < v, n < s.len() ==> v < s[n],
    ensures !s.contains(v),
{
    if s.contains(v) { let q = choose |q: int| 0 <= q < s.len() && s[q] == v; if q < n { assert(s[q] < v); } else if q > n { assert(s[n] < s[q]); } }
}
} // verus!
'''

MERGE_STEP = r'''proof {
    let a = old(self).elements@; let b = other.elements@;
    ia = if self_next.is_some() { self_iter as int - 1 } else { self_iter as int };
    jb = if other_next.is_some() { other_iter as int - 1 } else { other_iter as int };
    if ia == ia0 + 1 && jb == jb0 {
        // a[ia0] was pushed (it is below b's head, or b is exhausted)
        let v = a[ia0];
        assert(result@ == r0.push(v));
        lemma_below_not_in_prefix(b, jb0, v);
        assert forall |k: u16| result@.contains(k) == (a.subrange(0, ia).contains(k) != b.subrange(0, jb).contains(k)) by { lemma_push_has_u16(r0, v, k); lemma_prefix_has(a, ia0, k); lemma_all_below_not_has(r0, v); }
        assert forall |x: int, y: int| 0 <= x < y < result@.len() implies result@[x] < result@[y] by { if y == r0.len() { assert(r0[x] < v); } }
        assert forall |x: int| 0 <= x < result@.len() && ia < a.len() implies #[trigger] result@[x] < a[ia] by { assert(a[ia0] < a[ia]); if x < r0.len() { assert(r0[x] < a[ia0]); } }
        assert forall |x: int| 0 <= x < ia && jb < b.len() implies #[trigger] a[x] < b[jb] by { }
        assert forall |y: int| 0 <= y < jb && ia < a.len() implies #[trigger] b[y] < a[ia] by { assert(a[ia0] < a[ia]); assert(b[y] < a[ia0]); }
    } else if ia == ia0 + 1 && jb == jb0 + 1 {
        // equal heads cancel
        let v = a[ia0];
        assert(result@ == r0 && b[jb0] == v);
        lemma_all_below_not_has(r0, v);
        assert forall |k: u16| result@.contains(k) == (a.subrange(0, ia).contains(k) != b.subrange(0, jb).contains(k)) by { lemma_prefix_has(a, ia0, k); lemma_prefix_has(b, jb0, k); }
        assert forall |x: int| 0 <= x < result@.len() && ia < a.len() implies #[trigger] result@[x] < a[ia] by { assert(a[ia0] < a[ia]); assert(r0[x] < a[ia0]); }
        assert forall |x: int| 0 <= x < result@.len() && jb < b.len() implies #[trigger] result@[x] < b[jb] by { assert(b[jb0] < b[jb]); assert(r0[x] < b[jb0]); }
        assert forall |x: int| 0 <= x < ia && jb < b.len() implies #[trigger] a[x] < b[jb] by { assert(b[jb0] < b[jb]); if x < ia0 { assert(a[x] < b[jb0]); } }
        assert forall |y: int| 0 <= y < jb && ia < a.len() implies #[trigger] b[y] < a[ia] by { assert(a[ia0] < a[ia]); if y < jb0 { assert(b[y] < a[ia0]); } }
        assert(a.contains(b[jb0])) by { assert(a[ia0] == b[jb0]); }
        assert((exists |y: int| 0 <= y < jb && !a.contains(#[trigger] b[y])) == (exists |y: int| 0 <= y < jb0 && !a.contains(#[trigger] b[y])));
    } else {
        // b[jb0] was pushed (it is below a's head, or a is exhausted): a key new to self
        assert(ia == ia0 && jb == jb0 + 1);
        let v = b[jb0];
        assert(result@ == r0.push(v));
        lemma_below_not_in_prefix(a, ia0, v);
        lemma_gap_not_in(a, ia0, v);
        assert forall |k: u16| result@.contains(k) == (a.subrange(0, ia).contains(k) != b.subrange(0, jb).contains(k)) by { lemma_push_has_u16(r0, v, k); lemma_prefix_has(b, jb0, k); lemma_all_below_not_has(r0, v); }
        assert forall |x: int, y: int| 0 <= x < y < result@.len() implies result@[x] < result@[y] by { if y == r0.len() { assert(r0[x] < v); } }
        assert forall |x: int| 0 <= x < result@.len() && jb < b.len() implies #[trigger] result@[x] < b[jb] by { assert(b[jb0] < b[jb]); if x < r0.len() { assert(r0[x] < b[jb0]); } }
        assert forall |x: int| 0 <= x < ia && jb < b.len() implies #[trigger] a[x] < b[jb] by { assert(b[jb0] < b[jb]); assert(a[x] < b[jb0]); }
        assert(!a.contains(b[jb0]));
    }
}
'''

FAST_REMOVE = r'''proof { let a = self.elements@; let b = other.elements@; let v = b[0];
    assert forall |k: u16| b.contains(k) == (k == v) by { if b.contains(k) { let q = choose |q: int| 0 <= q < b.len() && b[q] == k; } if k == v { assert(b[0] == k); } }
    assert(a.contains(v)) by { assert(a[index as int] == v); }
    assert forall |k: u16| a.remove(index as int).contains(k) == (k != v && a.contains(k)) by { lemma_has_after_remove(a, index as int, k); } }'''

FAST_INSERT = r'''proof { let a = self.elements@; let b = other.elements@; let v = b[0];
    assert forall |k: u16| b.contains(k) == (k == v) by { if b.contains(k) { let q = choose |q: int| 0 <= q < b.len() && b[q] == k; } if k == v { assert(b[0] == k); } }
    assert(!a.contains(v)) by { if a.contains(v) { let q = choose |q: int| 0 <= q < a.len() && a[q] == v; } }
    assert forall |k: u16| a.insert(index as int, v).contains(k) == (k == v || a.contains(k)) by { lemma_has_after_insert(a, index as int, v, k); }
    assert(sv_has(*other, v) && !sv_has(*old(self), v)); }'''

MERGE_END = r'''proof {
    let a = old(self).elements@; let b = other.elements@;
    assert(self_next.is_none() && other_next.is_none()); assert(ia == a.len() && jb == b.len());
    assert(column_added == (exists |y: int| 0 <= y < b.len() && !a.contains(#[trigger] b[y])));
    assert(a.subrange(0, a.len() as int) =~= a && b.subrange(0, b.len() as int) =~= b);
    assert((exists |k: u16| b.contains(k) && !a.contains(k)) == (exists |y: int| 0 <= y < b.len() && !a.contains(#[trigger] b[y]))) by {
        if exists |k: u16| b.contains(k) && !a.contains(k) { let k = choose |k: u16| b.contains(k) && !a.contains(k); let y = choose |y: int| 0 <= y < b.len() && b[y] == k; assert(!a.contains(b[y])); }
        if exists |y: int| 0 <= y < b.len() && !a.contains(#[trigger] b[y]) { let y = choose |y: int| 0 <= y < b.len() && !a.contains(#[trigger] b[y]); assert(b.contains(b[y])); }
    }
    assert((exists |k: u16| sv_has(*other, k) && !sv_has(*old(self), k)) == (exists |k: u16| b.contains(k) && !a.contains(k))) by {
        if exists |k: u16| sv_has(*other, k) && !sv_has(*old(self), k) { let k = choose |k: u16| sv_has(*other, k) && !sv_has(*old(self), k); assert(b.contains(k) && !a.contains(k)); }
        if exists |k: u16| b.contains(k) && !a.contains(k) { let k = choose |k: u16| b.contains(k) && !a.contains(k); assert(sv_has(*other, k) && !sv_has(*old(self), k)); }
    }
    assert(column_added == (exists |k: u16| sv_has(*other, k) && !sv_has(*old(self), k)));
}
'''


def spvec(u):
    """SparseBinaryVec under contract (also used by V-SPMAT)"""
    IMPL = 'impl SparseBinaryVec'
    u.raw('impl SparseBinaryVec {')
    u.fn('src/sparse_vec.rs', 'key_to_internal_index', impl=IMPL, ret='r',
         subst=[('self.elements.binary_search(&i)', 'verif_binary_search_u16(&self.elements, i)', 'S5-binary-search')],
         requires=['sv_wf(*self)'],
         ensures=['match r { Ok(x) => (x as int) < self.elements@.len() && self.elements@[x as int] == i,'
                  ' Err(x) => (x as int) <= self.elements@.len() && (forall |k: int| 0 <= k < x as int ==> self.elements@[k] < i) && (forall |k: int| x as int <= k < self.elements@.len() ==> self.elements@[k] > i) }'])
    u.fn('src/sparse_vec.rs', 'len', impl=IMPL, ret='r', ensures=['r == self.elements@.len()'])
    u.fn('src/sparse_vec.rs', 'get_by_raw_index', impl=IMPL, ret='r', requires=['(i as int) < self.elements@.len()'],
         ensures=['r.0 == self.elements@[i as int] as usize', 'r.1.value == 1'])
    u.fn('src/sparse_vec.rs', 'get', impl=IMPL, ret='r',
         requires=['sv_wf(*self)', 'i < 65536'],
         ensures=['r.is_some() == sv_has(*self, i as u16)', 'r.is_some() ==> r.unwrap().value == 1'])
    u.fn('src/sparse_vec.rs', 'remove', impl=IMPL, ret='r',
         requires=['sv_wf(*old(self))', 'i < 65536'],
         ensures=['sv_wf(*final(self))', 'r.is_some() == sv_has(*old(self), i as u16)',
                  'forall |k: u16| sv_has(*final(self), k) == (k != i as u16 && sv_has(*old(self), k))'],
         hint_inserts=[('self.elements.remove(index);', 'before',
                        'proof { assert forall |k: u16| self.elements@.remove(index as int).contains(k) == (k != i as u16 && self.elements@.contains(k)) by { lemma_has_after_remove(self.elements@, index as int, k); } }'),
                       ('Err(_) => None,', 'replace',
                        'Err(verif_e) => { proof { assert(!self.elements@.contains(i as u16)) by { if self.elements@.contains(i as u16) { let q = choose |q: int| 0 <= q < self.elements@.len() && self.elements@[q] == i as u16; } } } None }')])
    u.fn('src/sparse_vec.rs', 'insert', impl=IMPL, ret='r', rules=['A1'],
         requires=['sv_wf(*old(self))', 'i < 65536'],
         ensures=['sv_wf(*final(self))', 'forall |k: u16| sv_has(*final(self), k) == (if k == i as u16 { value.value != 0 } else { sv_has(*old(self), k) })'],
         hint_inserts=[('Err(index) => self.elements.insert(index, i as u16),', 'replace',
                        'Err(index) => { proof { assert forall |k: u16| self.elements@.insert(index as int, i as u16).contains(k) == (k == i as u16 || self.elements@.contains(k)) by { lemma_has_after_insert(self.elements@, index as int, i as u16, k); }'
                        ' assert(!self.elements@.contains(i as u16)) by { if self.elements@.contains(i as u16) { let q = choose |q: int| 0 <= q < self.elements@.len() && self.elements@[q] == i as u16; } } }'
                        ' self.elements.insert(index, i as u16) },')])
    # ---- GF(2) sum of two sparse rows (the two-iterator merge): symmetric difference of the key sets
    A, B = 'old(self).elements@', 'other.elements@'
    INV = ('invariant sv_wf(*old(self)), sv_wf(*other), self.elements@ == @A@, self_iter <= @A@.len(), other_iter <= @B@.len(),'
           ' (self_next.is_some() ==> self_iter >= 1 && *self_next.unwrap() == @A@[self_iter as int - 1]), (self_next.is_none() ==> self_iter as int == @A@.len()),'
           ' (other_next.is_some() ==> other_iter >= 1 && *other_next.unwrap() == @B@[other_iter as int - 1]), (other_next.is_none() ==> other_iter as int == @B@.len()),'
           ' ia == (if self_next.is_some() { self_iter as int - 1 } else { self_iter as int }), jb == (if other_next.is_some() { other_iter as int - 1 } else { other_iter as int }),'
           # cross order: everything consumed from one side is below the other side's head
           ' forall |x: int| 0 <= x < ia && jb < @B@.len() ==> #[trigger] @A@[x] < @B@[jb], forall |y: int| 0 <= y < jb && ia < @A@.len() ==> #[trigger] @B@[y] < @A@[ia],'
           ' forall |x: int, y: int| 0 <= x < y < result@.len() ==> result@[x] < result@[y],'
           ' forall |x: int| 0 <= x < result@.len() && ia < @A@.len() ==> #[trigger] result@[x] < @A@[ia], forall |x: int| 0 <= x < result@.len() && jb < @B@.len() ==> #[trigger] result@[x] < @B@[jb],'
           ' forall |k: u16| result@.contains(k) == (@A@.subrange(0, ia).contains(k) != @B@.subrange(0, jb).contains(k)),'
           ' column_added == (exists |y: int| 0 <= y < jb && !@A@.contains(#[trigger] @B@[y])),'
           ' ensures self_next.is_none() && other_next.is_none(),').replace('@A@', A).replace('@B@', B)
    u.fn('src/sparse_vec.rs', 'add_assign', impl=IMPL, ret='r', rules=['X1', 'X2'],
         attrs='#[verifier::exec_allows_no_decreases_clause]\n#[verifier::rlimit(60)]', isolate_loops=True,
         requires=['sv_wf(*old(self))', 'sv_wf(*other)'],
         ensures=['sv_wf(*final(self))', 'forall |k: u16| sv_has(*final(self), k) == (sv_has(*old(self), k) != sv_has(*other, k))',
                  'r == (exists |k: u16| sv_has(*other, k) && !sv_has(*old(self), k))'],
         resubst=[(r'let mut result = Vec::with_capacity\(', 'let mut result: Vec<u16> = Vec::with_capacity(', 'type-annotation')],
         prepend='proof { lemma_sorted_len(self.elements@); lemma_sorted_len(other.elements@); }',
         inserts=[('let mut column_added = false;', 'after', 'let ghost mut ia: int = 0; let ghost mut jb: int = 0;\nproof { ia = if self_next.is_some() { 0 } else { 0 }; }')],
         loops={0: {'spec': INV,
                    'body_top': 'let ghost r0 = result@; let ghost ia0 = ia; let ghost jb0 = jb;',
                    'body_bottom': MERGE_STEP}},
         hint_inserts=[('self.elements = result;', 'before', MERGE_END),
                       ('self.elements.remove(index);', 'before', FAST_REMOVE),
                       ('self.elements.insert(index, *other_index);', 'before', FAST_INSERT)])
    u.raw('}')


def build():
    u = VUnit('V-SPVEC')
    u.raw(common.PRELUDE)
    u.raw(common.ARITH)
    u.raw('verus! {')
    u.struct('src/octet.rs', 'Octet', prefix='#[derive(PartialEq, Eq, Structural)]\n')
    u.raw('''impl Octet {
    pub fn zero() -> (r: Octet) ensures r.value == 0 { Octet { value: 0 } }
    pub fn one() -> (r: Octet) ensures r.value == 1 { Octet { value: 1 } }
}''', label='Octet::zero / one (trivial constructors, re-stated)')
    u.struct('src/sparse_vec.rs', 'SparseBinaryVec')
    u.raw('} // verus!')
    u.raw(SPEC)
    u.raw(MERGE_SPEC, label='merge lemmas + cursor model (rule X1)')
    u.trust('rule X1: slice::Iter::next modelled as a cursor over the vector; rule X2: match on Ord::cmp rewritten to an if-chain')
    u.trust('rule S5: <[u16]>::binary_search on a strictly increasing slice returns Ok(position) or Err(insertion point) (std documented behaviour)')
    u.raw('verus! {')
    spvec(u)
    u.raw('} // verus!')
    return u
