"""V-UNPACK (C05, decoder half of the layout): SourceBlockDecoder::unpack_sub_blocks writes symbol `idx` to the positions
RFC 6330 4.4.1.2 prescribes: the block is the concatenation of N sub-blocks, sub-block sb holds K sub-symbols of bytes(sb) bytes,
symbol m is the concatenation of the m-th sub-symbols."""
from vunit import VUnit
import common
import v_oti, v_part, v_blocks, v_enc, v_dec

SPEC = r'''
verus! {
global size_of usize == 8;
// (TL, TS, NL, NS) = Partition[T/Al, N]; sub-symbol size of sub-block sb in bytes; offset of sub-symbol sb inside a symbol
pub open spec fn tl_of(t: int, al: int, n: int) -> int { ceil_div(t / al, n) }
pub open spec fn ts_of(t: int, al: int, n: int) -> int { (t / al) / n }
pub open spec fn nl_of(t: int, al: int, n: int) -> int { (t / al) - ((t / al) / n) * n }
pub open spec fn sub_bytes(t: int, al: int, n: int, sb: int) -> int { if sb < nl_of(t, al, n) { tl_of(t, al, n) * al } else { ts_of(t, al, n) * al } }
pub open spec fn sym_off(t: int, al: int, n: int, sb: int) -> int { block_start(sb, tl_of(t, al, n), ts_of(t, al, n), nl_of(t, al, n), al) }
pub open spec fn splice(s: Seq<u8>, at: int, src: Seq<u8>) -> Seq<u8> {
    s.subrange(0, at) + src + s.subrange(at + src.len(), s.len() as int)
}
// result after the first m sub-blocks have been written
pub open spec fn unpack_upto(t: int, al: int, n: int, k: int, before: Seq<u8>, sym: Seq<u8>, idx: int, m: nat) -> Seq<u8>
    decreases m,
{
    if m == 0 { before } else {
        let sb = m - 1;
        splice(unpack_upto(t, al, n, k, before, sym, idx, sb as nat),
               k * sym_off(t, al, n, sb) + sub_bytes(t, al, n, sb) * idx,
               sym.subrange(sym_off(t, al, n, sb), sym_off(t, al, n, sb) + sub_bytes(t, al, n, sb)))
    }
}
pub open spec fn unpack_spec(t: int, al: int, n: int, k: int, before: Seq<u8>, sym: Seq<u8>, idx: int) -> Seq<u8> {
    unpack_upto(t, al, n, k, before, sym, idx, n as nat)
}
pub open spec fn layout_ok(t: int, al: int, n: int) -> bool {
    t >= 1 && al >= 1 && t % al == 0 && 1 <= n <= t / al && t <= 65535 && al <= 255
}
pub proof fn lemma_layout(t: int, al: int, n: int, sb: int)
    requires layout_ok(t, al, n), 0 <= sb < n,
    ensures
        sym_off(t, al, n, 0) == 0,
        sym_off(t, al, n, sb + 1) == sym_off(t, al, n, sb) + sub_bytes(t, al, n, sb),
        0 <= sym_off(t, al, n, sb) <= sym_off(t, al, n, sb + 1) <= sym_off(t, al, n, n) == t,
        0 <= sub_bytes(t, al, n, sb) <= t,
        0 <= nl_of(t, al, n) < n, 0 <= ts_of(t, al, n) <= tl_of(t, al, n) <= t,
{
    let i = t / al;
    lemma_fundamental_div_mod(t, al);
    assert(i * al == t) by (nonlinear_arith) requires t == al * i + 0;
    assert(1 <= i <= t) by (nonlinear_arith) requires i * al == t, al >= 1, t >= 1, i >= 0 || i < 0;
    lemma_partition(i, n);
    let tl = tl_of(t, al, n); let ts = ts_of(t, al, n); let nl = nl_of(t, al, n);
    assert(nl == i % n);
    assert(nl * tl + (n - nl) * ts == i);
    let a = tl * al; let b = ts * al;
    assert(0 <= b <= a) by (nonlinear_arith) requires a == tl * al, b == ts * al, 0 <= ts <= tl, al >= 1;
    assert(nl * a + (n - nl) * b == t) by (nonlinear_arith) requires nl * tl + (n - nl) * ts == i, i * al == t, a == tl * al, b == ts * al;
    assert(0 * a == 0) by (nonlinear_arith);
    assert(a <= t) by (nonlinear_arith) requires nl * a + (n - nl) * b == t, 0 <= nl < n, 0 <= b <= a, n >= 1, (nl >= 1 || a == b || true),
        tl <= i, a == tl * al, i * al == t, al >= 1;
    if sb < nl {
        assert((sb + 1) * a == sb * a + a) by (nonlinear_arith);
        assert(sb * a >= 0) by (nonlinear_arith) requires sb >= 0, a >= 0;
        assert((sb + 1) * a <= nl * a) by (nonlinear_arith) requires sb + 1 <= nl, a >= 0;
        assert((n - nl) * b >= 0) by (nonlinear_arith) requires n >= nl, b >= 0;
    } else {
        assert((sb + 1 - nl) * b == (sb - nl) * b + b) by (nonlinear_arith);
        if sb == nl { assert((sb - nl) * b == 0) by (nonlinear_arith) requires sb == nl; }
        assert((sb - nl) * b >= 0) by (nonlinear_arith) requires sb >= nl, b >= 0;
        assert(nl * a >= 0) by (nonlinear_arith) requires nl >= 0, a >= 0;
        assert((sb + 1 - nl) * b <= (n - nl) * b) by (nonlinear_arith) requires sb + 1 <= n, b >= 0;
    }
}
pub proof fn lemma_sym_off_mono(t: int, al: int, n: int, a: int, b: int)
    requires layout_ok(t, al, n), 0 <= a <= b <= n,
    ensures sym_off(t, al, n, a) <= sym_off(t, al, n, b), 0 <= sym_off(t, al, n, a), sym_off(t, al, n, b) <= t,
    decreases b - a,
{
    if a < b { lemma_layout(t, al, n, b - 1); lemma_sym_off_mono(t, al, n, a, b - 1); }
    if a < n { lemma_layout(t, al, n, a); } else { lemma_layout(t, al, n, n - 1); }
    if b < n { lemma_layout(t, al, n, b); } else { lemma_layout(t, al, n, n - 1); }
}
// where symbol idx goes (RFC 6330 4.4.1.2): sub-block sb occupies block bytes [K*sym_off(sb), K*sym_off(sb+1)) as K sub-symbols of
// sub_bytes(sb) bytes; the idx-th of them receives bytes [sym_off(sb), sym_off(sb+1)) of the symbol
pub open spec fn dst_start(t: int, al: int, n: int, k: int, idx: int, sb: int) -> int { k * sym_off(t, al, n, sb) + sub_bytes(t, al, n, sb) * idx }
pub proof fn lemma_dst_range(t: int, al: int, n: int, k: int, idx: int, sb: int)
    requires layout_ok(t, al, n), 0 <= sb < n, 0 <= idx < k,
    ensures k * sym_off(t, al, n, sb) <= dst_start(t, al, n, k, idx, sb),
            dst_start(t, al, n, k, idx, sb) + sub_bytes(t, al, n, sb) <= k * sym_off(t, al, n, sb + 1),
            0 <= k * sym_off(t, al, n, sb), k * sym_off(t, al, n, sb + 1) <= k * t,
{
    lemma_layout(t, al, n, sb);
    let so = sym_off(t, al, n, sb); let by = sub_bytes(t, al, n, sb); let so1 = sym_off(t, al, n, sb + 1);
    assert(by * idx >= 0 && by * idx + by <= by * k) by (nonlinear_arith) requires 0 <= idx < k, by >= 0;
    assert(k * so1 == k * so + by * k) by (nonlinear_arith) requires so1 == so + by;
    assert(k * so >= 0 && k * so1 <= k * t) by (nonlinear_arith) requires 0 <= so <= so1 <= t, k >= 0;
}
// THE LAYOUT, pointwise: after un-interleaving symbol idx, byte b of its sb-th sub-symbol sits at dst_start(sb) + b,
// and every block byte outside those N ranges is unchanged
pub proof fn lemma_unpack_pointwise(t: int, al: int, n: int, k: int, before: Seq<u8>, sym: Seq<u8>, idx: int, m: nat)
    requires layout_ok(t, al, n), 0 <= idx < k, before.len() == t * k, sym.len() == t, m <= n,
    ensures
        unpack_upto(t, al, n, k, before, sym, idx, m).len() == t * k,
        forall |sb: int, b: int| 0 <= sb < m && 0 <= b < sub_bytes(t, al, n, sb) ==>
            #[trigger] unpack_upto(t, al, n, k, before, sym, idx, m)[dst_start(t, al, n, k, idx, sb) + b] == sym[sym_off(t, al, n, sb) + b],
        forall |p: int| 0 <= p < t * k && (forall |sb: int| 0 <= sb < m ==> !(#[trigger] dst_start(t, al, n, k, idx, sb) <= p && p < dst_start(t, al, n, k, idx, sb) + sub_bytes(t, al, n, sb)))
            ==> #[trigger] unpack_upto(t, al, n, k, before, sym, idx, m)[p] == before[p],
    decreases m,
{
    if m > 0 {
        let sbl = m - 1;
        lemma_unpack_pointwise(t, al, n, k, before, sym, idx, sbl as nat);
        let prev = unpack_upto(t, al, n, k, before, sym, idx, sbl as nat);
        let cur = unpack_upto(t, al, n, k, before, sym, idx, m);
        lemma_dst_range(t, al, n, k, idx, sbl); lemma_layout(t, al, n, sbl);
        let at = dst_start(t, al, n, k, idx, sbl); let by = sub_bytes(t, al, n, sbl); let so = sym_off(t, al, n, sbl);
        assert(k * t == t * k) by (nonlinear_arith);
        assert(cur.len() == t * k);
        assert forall |sb: int, b: int| 0 <= sb < m && 0 <= b < sub_bytes(t, al, n, sb) implies
            #[trigger] cur[dst_start(t, al, n, k, idx, sb) + b] == sym[sym_off(t, al, n, sb) + b] by {
            if sb == sbl {
            } else {
                lemma_dst_range(t, al, n, k, idx, sb); lemma_sym_off_mono(t, al, n, sb + 1, sbl);
                assert(k * sym_off(t, al, n, sb + 1) <= k * sym_off(t, al, n, sbl)) by (nonlinear_arith) requires sym_off(t, al, n, sb + 1) <= sym_off(t, al, n, sbl), k >= 0;
                assert(cur[dst_start(t, al, n, k, idx, sb) + b] == prev[dst_start(t, al, n, k, idx, sb) + b]);
            }
        }
        assert forall |p: int| 0 <= p < t * k && (forall |sb: int| 0 <= sb < m ==> !(#[trigger] dst_start(t, al, n, k, idx, sb) <= p && p < dst_start(t, al, n, k, idx, sb) + sub_bytes(t, al, n, sb)))
            implies #[trigger] cur[p] == before[p] by {
            assert(dst_start(t, al, n, k, idx, sbl) == at);
            assert(!(at <= p && p < at + by));
            assert(cur[p] == prev[p]);
        }
    } else {
        assert(k * t == t * k) by (nonlinear_arith);
    }
}
} // verus!
'''


def build():
    u = VUnit('V-UNPACK')
    u.raw(common.PRELUDE + '\nuse std::collections::HashSet;\n')
    u.raw(common.ARITH)
    u.raw(common.STD_SPECS)
    for t in common.STD_TRUST:
        u.trust(t)
    u.raw(v_part.SPEC)
    u.raw('verus! {')
    v_enc.base_types(u)
    v_dec.sbd_struct(u)
    u.raw('''pub open spec fn block_start(k: int, kl: int, ks: int, zl: int, t: int) -> int {
    if k <= zl { k * (kl * t) } else { zl * (kl * t) + (k - zl) * (ks * t) }
}''', label='block_start (same definition as V-BLOCKS)')
    u.raw('} // verus!')
    u.raw(SPEC)
    u.raw('verus! {')
    v_oti.int_div_ceil(u)
    v_part.partition(u, external=True)
    u.trust('partition contract: proved on the real body in V-PART; assumed here')
    u.raw('impl SourceBlockDecoder {')
    T, AL, N, KK = 'self.symbol_size as int', 'self.symbol_alignment as int', 'self.num_sub_blocks as int', 'self.source_block_symbols as int'
    u.fn('src/decoder.rs', 'unpack_sub_blocks', impl='impl SourceBlockDecoder', ret='r',
         requires=v_dec.UNPACK_REQ, ensures=v_dec.UNPACK_ENS,
         inserts=[('let mut symbol_offset = 0;', 'before',
                   'proof { lemma_fundamental_div_mod(%s, %s); lemma_partition(%s / %s, %s); lemma_layout(%s, %s, %s, 0);'
                   ' assert(%s * %s <= 65535 * 56403) by (nonlinear_arith) requires %s <= 65535, %s <= 56403, %s >= 0, %s >= 0; }' % (T, AL, T, AL, N, T, AL, N, T, KK, T, KK, T, KK)),
                  ('let mut symbol_offset = 0;', 'replace', 'let mut symbol_offset: usize = 0;'),
                  ('let mut sub_block_offset = 0;', 'replace', 'let mut sub_block_offset: usize = 0;')],
         loops={0: {'spec': ('invariant layout_ok(%s, %s, %s), %s <= 56403, symbol_index < %s, symbol@.len() == %s,'
                             ' tl as int == tl_of(%s, %s, %s), ts as int == ts_of(%s, %s, %s), nl as int == nl_of(%s, %s, %s), nl as int + ns as int == %s,'
                             ' result@.len() == %s * %s, symbol_offset as int == sym_off(%s, %s, %s, sub_block as int), sub_block_offset as int == %s * sym_off(%s, %s, %s, sub_block as int),'
                             ' result@ == unpack_upto(%s, %s, %s, %s, old(result)@, symbol@, symbol_index as int, sub_block as nat),'
                             % (T, AL, N, KK, KK, T, T, AL, N, T, AL, N, T, AL, N, N, T, KK, T, AL, N, KK, T, AL, N, T, AL, N, KK)),
                    'body_top': 'proof { lemma_layout(%s, %s, %s, sub_block as int); }' % (T, AL, N)}},
         hint_inserts=[('let start = sub_block_offset + bytes * symbol_index;', 'before',
                       ('proof { let so = sym_off(%s, %s, %s, sub_block as int); let by = sub_bytes(%s, %s, %s, sub_block as int); let so1 = sym_off(%s, %s, %s, sub_block as int + 1); let kk = %s; let ix = symbol_index as int;'
                        ' assert(bytes as int == by);'
                        ' assert(by * ix >= 0 && by * ix + by <= by * kk) by (nonlinear_arith) requires 0 <= ix < kk, by >= 0;'
                        ' assert(kk * so1 == kk * so + by * kk) by (nonlinear_arith) requires so1 == so + by;'
                        ' assert(kk * so >= 0 && kk * so1 <= kk * %s) by (nonlinear_arith) requires 0 <= so <= so1 <= %s, kk >= 0;'
                        ' assert(kk * %s <= 56403 * 65535) by (nonlinear_arith) requires 0 <= kk <= 56403, 0 <= %s <= 65535;'
                        ' assert(kk * %s == %s * kk) by (nonlinear_arith);'
                        ' assert(bytes as int * (self.source_block_symbols as int) == by * kk); }') % (T, AL, N, T, AL, N, T, AL, N, KK, T, T, T, T, T, T))])
    u.raw('}')
    u.raw('} // verus!')
    return u
