"""V-BLOCKS (C05): calculate_block_offsets cuts [0, Kt*T) into Z contiguous blocks, ZL of KL symbols then ZS of KS."""
from vunit import VUnit
import common
import v_oti, v_part

SPEC = r'''
verus! {
global size_of usize == 8;

// offset of the start of block k (k <= Z) for Partition[Kt, Z] = (KL, KS, ZL, ZS) and symbol size T
pub open spec fn block_start(k: int, kl: int, ks: int, zl: int, t: int) -> int {
    if k <= zl { k * (kl * t) } else { zl * (kl * t) + (k - zl) * (ks * t) }
}
pub open spec fn cfg_ok(c: ObjectTransmissionInformation) -> bool {
    &&& c.symbol_size >= 1
    &&& c.num_source_blocks >= 1
    &&& c.transfer_length <= 942574504275
    &&& ceil_div(ceil_div(c.transfer_length as int, c.symbol_size as int), c.num_source_blocks as int) <= 56403
}
pub open spec fn kt_of(c: ObjectTransmissionInformation) -> int {
    ceil_div(c.transfer_length as int, c.symbol_size as int)
}
// the layout RFC 6330 4.4.1.2 prescribes, as a predicate on the returned list
pub open spec fn blocks_ok(blocks: Seq<(usize, usize)>, c: ObjectTransmissionInformation) -> bool {
    let kt = kt_of(c);
    let z = c.num_source_blocks as int;
    let t = c.symbol_size as int;
    let kl = ceil_div(kt, z);
    let ks = kt / z;
    let zl = kt - ks * z;
    &&& blocks.len() == z
    &&& forall |k: int| 0 <= k < z ==> (#[trigger] blocks[k]).0 as int == block_start(k, kl, ks, zl, t)
                                   && blocks[k].1 as int == block_start(k + 1, kl, ks, zl, t)
    &&& block_start(0, kl, ks, zl, t) == 0
    &&& block_start(z, kl, ks, zl, t) == kt * t          // the blocks cover exactly Kt symbols
    &&& kt * t >= c.transfer_length as int               // ... which is at least the object
    &&& (kt - 1) * t < (c.transfer_length as int) || c.transfer_length == 0   // and less than one symbol of padding
}
pub proof fn lemma_kt_bounds(c: ObjectTransmissionInformation)
    requires cfg_ok(c),
    ensures 0 <= kt_of(c) <= 56403 * 255, kt_of(c) < 0x1_0000_0000,
        kt_of(c) * c.symbol_size as int >= c.transfer_length as int,
        (kt_of(c) - 1) * (c.symbol_size as int) < (c.transfer_length as int) || c.transfer_length == 0,
{
    let kt = kt_of(c);
    let z = c.num_source_blocks as int;
    lemma_ceil_div_exact(c.transfer_length as int, c.symbol_size as int);
    lemma_ceil_div_le(kt, z, 56403);
    assert(kt <= z * 56403);
    assert(z * 56403 <= 255 * 56403) by (nonlinear_arith) requires z <= 255;
}
} // verus!
'''

SPEC_LEMMAS = r'''
verus! {
pub proof fn lemma_block_total(kt: int, z: int, t: int)
    requires kt >= 0, z >= 1, t >= 0,
    ensures ({ let kl = ceil_div(kt, z); let ks = kt / z; let zl = kt - ks * z;
               block_start(z, kl, ks, zl, t) == kt * t && 0 <= zl < z && 0 <= ks <= kl && kl <= kt + 1 && (kl <= kt || kt == 0)}),
{
    lemma_partition(kt, z);
    let kl = ceil_div(kt, z); let ks = kt / z; let zl = kt - ks * z;
    assert(zl == kt % z);
    assert(zl * kl + (z - zl) * ks == kt);
    assert(zl * (kl * t) + (z - zl) * (ks * t) == (zl * kl + (z - zl) * ks) * t) by (nonlinear_arith);
}
pub proof fn lemma_bs_step(k: int, kl: int, ks: int, zl: int, z: int, t: int)
    requires 0 <= k < z, 0 <= zl <= z, 0 <= ks <= kl, t >= 0, z <= 255, kl <= 56403, t <= 65535,
    ensures
        block_start(0, kl, ks, zl, t) == 0,
        block_start(k + 1, kl, ks, zl, t) == block_start(k, kl, ks, zl, t) + (if k < zl { kl * t } else { ks * t }),
        0 <= block_start(k, kl, ks, zl, t) <= block_start(k + 1, kl, ks, zl, t) <= block_start(z, kl, ks, zl, t),
        block_start(z, kl, ks, zl, t) <= 255 * (56403 * 65535),
        0 <= kl * t <= 56403 * 65535, 0 <= ks * t <= 56403 * 65535,
{
    let a = kl * t; let b = ks * t;
    assert(0 <= b <= a <= 56403 * 65535) by (nonlinear_arith) requires a == kl * t, b == ks * t, 0 <= ks <= kl, 0 <= t <= 65535, kl <= 56403;
    assert(0 * a == 0) by (nonlinear_arith);
    if k < zl {
        assert((k + 1) * a == k * a + a) by (nonlinear_arith);
        assert(k * a >= 0) by (nonlinear_arith) requires k >= 0, a >= 0;
        assert((k + 1) * a <= zl * a) by (nonlinear_arith) requires k + 1 <= zl, a >= 0;
        assert((z - zl) * b >= 0) by (nonlinear_arith) requires z >= zl, b >= 0;
    } else {
        assert((k + 1 - zl) * b == (k - zl) * b + b) by (nonlinear_arith);
        assert((k - zl) * b >= 0) by (nonlinear_arith) requires k >= zl, b >= 0;
        assert(zl * a >= 0) by (nonlinear_arith) requires zl >= 0, a >= 0;
        assert((k + 1 - zl) * b <= (z - zl) * b) by (nonlinear_arith) requires k + 1 <= z, b >= 0;
    }
    assert(zl * a + (z - zl) * b <= z * a) by (nonlinear_arith) requires 0 <= zl <= z, 0 <= b <= a;
    assert(z * a <= 255 * (56403 * 65535)) by (nonlinear_arith) requires 0 <= z <= 255, 0 <= a <= 56403 * 65535;
    assert(zl * a <= z * a) by (nonlinear_arith) requires 0 <= zl <= z, 0 <= a;
}
} // verus!
'''


def oti_struct_and_accessors(u, external=False):
    u.struct('src/base.rs', 'ObjectTransmissionInformation')
    u.raw('impl ObjectTransmissionInformation {')
    for acc, field in [('transfer_length', 'transfer_length'), ('symbol_size', 'symbol_size'), ('source_blocks', 'num_source_blocks'),
                       ('sub_blocks', 'num_sub_blocks'), ('symbol_alignment', 'symbol_alignment')]:
        u.fn('src/base.rs', acc, impl='impl ObjectTransmissionInformation', ret='r', ensures=['r == self.%s' % field])
    u.raw('}')


def calculate_block_offsets(u):
    G = 'kl as int, ks as int, zl as int, config.symbol_size as int'
    inv_common = ('kt as int == kt_of(*config), kl as int == ceil_div(kt as int, config.num_source_blocks as int), ks as int == kt as int / config.num_source_blocks as int,'
                  ' zl as int == kt as int - (ks as int) * config.num_source_blocks as int, zl as int + zs as int == config.num_source_blocks as int,'
                  ' cfg_ok(*config), kl <= 56403, ks <= kl, config.symbol_size >= 1, block_start(config.num_source_blocks as int, %s) == kt as int * config.symbol_size as int,'
                  ' blocks@.len() == verif_i as int, data_index as int == block_start(verif_i as int, %s),'
                  ' forall |k: int| 0 <= k < verif_i as int ==> (#[trigger] blocks@[k]).0 as int == block_start(k, %s)'
                  ' && blocks@[k].1 as int == block_start(k + 1, %s),' % (G, G, G, G))
    step = 'proof { lemma_bs_step(verif_i as int, kl as int, ks as int, zl as int, config.num_source_blocks as int, config.symbol_size as int); }'
    u.fn('src/encoder.rs', 'calculate_block_offsets', ret='blocks',
         requires=['cfg_ok(*config)', 'data@.len() == config.transfer_length as int'],
         ensures=['blocks_ok(blocks@, *config)'],
         inserts=[('let kt = int_div_ceil', 'before', 'proof { lemma_kt_bounds(*config); }'),
                  ('let mut data_index = 0;', 'before',
                   'proof { lemma_partition(kt as int, config.num_source_blocks as int); lemma_block_total(kt as int, config.num_source_blocks as int, config.symbol_size as int);'
                   ' lemma_ceil_div_le(kt as int, config.num_source_blocks as int, 56403);'
                   ' lemma_bs_step(0, kl as int, ks as int, zl as int, config.num_source_blocks as int, config.symbol_size as int); }'),
                  ('let mut data_index = 0;', 'replace', 'let mut data_index: usize = 0;'),
                  ('let mut blocks = vec![];', 'replace', 'let mut blocks: Vec<(usize, usize)> = vec![];'),
                  ],
         loops={
             0: {'spec': 'invariant ' + inv_common + ' verif_i <= zl,', 'body_top': step},
             1: {'spec': 'invariant ' + inv_common + ' zl <= verif_i, verif_i <= zl + zs,', 'body_top': step},
         },
         subst=[('for _ in 0..zl {', 'for verif_i in 0..zl {', 'name-loop-var'),
                ('for _ in zl..(zl + zs) {', 'for verif_i in zl..(zl + zs) {', 'name-loop-var'),
                ],
         rules=['A1'])


def build():
    u = VUnit('V-BLOCKS')
    u.raw(common.PRELUDE)
    u.raw(common.ARITH)
    u.raw(common.STD_SPECS)
    for t in common.STD_TRUST:
        u.trust(t)
    u.raw(v_part.SPEC)
    u.raw('verus! {')
    oti_struct_and_accessors(u)
    u.raw('} // verus!')
    u.raw(SPEC)
    u.raw(SPEC_LEMMAS)
    u.raw('verus! {')
    v_oti.int_div_ceil(u)
    v_part.partition(u)
    calculate_block_offsets(u)
    u.raw('} // verus!')
    return u
