"""V-DCOUNT (C16): DenseBinaryMatrix::count_ones(row, start_col, end_col) == the number of set cells of the abstract matrix in that
row and column range, for all shapes and ranges (mask arithmetic, whole-word popcounts, partial first and last word)."""
from vunit import VUnit
import common
import v_dense

SPEC = r'''
verus! {
// number of set bits among bits [0, n) of w
pub open spec fn pop(w: u64, n: int) -> int
    decreases n,
{ if n <= 0 { 0 } else { pop(w, n - 1) + (if bit_of(w, n - 1) { 1int } else { 0int }) } }
// rule S1: u64::count_ones is the population count (std documented behaviour)
pub assume_specification[ u64::count_ones ](w: u64) -> (r: u32)
    ensures r as int == pop(w, 64);
// number of set cells of row i in columns [a, b)
pub open spec fn cnt(m: DenseBinaryMatrix, i: int, a: int, b: int) -> int
    decreases b - a,
{ if b <= a { 0 } else { cnt(m, i, a, b - 1) + (if cell(m, i, b - 1) { 1int } else { 0int }) } }

pub proof fn lemma_pop_bounds(w: u64, n: int)
    requires 0 <= n <= 64,
    ensures 0 <= pop(w, n) <= n,
    decreases n,
{ if n > 0 { lemma_pop_bounds(w, n - 1); } }
pub proof fn lemma_pop_mono(w: u64, a: int, b: int)
    requires 0 <= a <= b <= 64,
    ensures pop(w, a) <= pop(w, b), pop(w, b) - pop(w, a) <= b - a,
    decreases b - a,
{ if a < b { lemma_pop_mono(w, a, b - 1); } }
// masks: bits [0, e) / bits [s, 64)
pub proof fn lemma_mask_bits(w: u64, s: u64, e: u64, k: u64)
    requires s < 64, e < 64, k < 64,
    ensures bit_of(w & (((1u64 << e) - 1) as u64), k as int) == (bit_of(w, k as int) && k < e),
            bit_of(w & !(((1u64 << s) - 1) as u64), k as int) == (bit_of(w, k as int) && k >= s),
            bit_of(w & (!(((1u64 << s) - 1) as u64) & (((1u64 << e) - 1) as u64)), k as int) == (bit_of(w, k as int) && k >= s && k < e),
            (1u64 << e) >= 1,
{
    assert(((w & (((1u64 << e) - 1) as u64)) & (1u64 << k) != 0) == ((w & (1u64 << k) != 0) && k < e)) by (bit_vector) requires e < 64, k < 64;
    assert(((w & !(((1u64 << s) - 1) as u64)) & (1u64 << k) != 0) == ((w & (1u64 << k) != 0) && k >= s)) by (bit_vector) requires s < 64, k < 64;
    assert(((w & (!(((1u64 << s) - 1) as u64) & (((1u64 << e) - 1) as u64))) & (1u64 << k) != 0) == ((w & (1u64 << k) != 0) && k >= s && k < e)) by (bit_vector) requires s < 64, e < 64, k < 64;
    assert((1u64 << e) >= 1) by (bit_vector) requires e < 64;
}
// popcount of a masked word == popcount of the selected bit range
pub proof fn lemma_pop_masked(w: u64, s: u64, e: u64, n: int)
    requires s < 64, e < 64, 0 <= n <= 64,
    ensures pop(w & (((1u64 << e) - 1) as u64), n) == pop(w, if n <= e as int { n } else { e as int }),
            pop(w & !(((1u64 << s) - 1) as u64), n) == pop(w, n) - pop(w, if n <= s as int { n } else { s as int }),
            s <= e ==> pop(w & (!(((1u64 << s) - 1) as u64) & (((1u64 << e) - 1) as u64)), n)
                       == pop(w, if n <= e as int { n } else { e as int }) - pop(w, if n <= s as int { n } else { s as int }),
    decreases n,
{
    if n > 0 {
        lemma_pop_masked(w, s, e, n - 1);
        lemma_mask_bits(w, s, e, (n - 1) as u64);
    }
}
// the cells [64q + x, 64q + y) of row i are the bits [x, y) of the q-th word of that row
pub proof fn lemma_cnt_word(m: DenseBinaryMatrix, i: int, q: int, x: int, y: int)
    requires dm_wf(m), 0 <= i < m.height, 0 <= q, 0 <= x <= y <= 64, 64 * q + y <= m.width,
    ensures cnt(m, i, 64 * q + x, 64 * q + y) == pop(m.elements@[i * rw(m.width as int) + q], y) - pop(m.elements@[i * rw(m.width as int) + q], x),
    decreases y - x,
{
    if x < y {
        lemma_cnt_word(m, i, q, x, y - 1);
        let c = 64 * q + y - 1;
        lemma_fundamental_div_mod_converse(c, 64, q, y - 1);
        assert(cell(m, i, c) == bit_of(m.elements@[i * rw(m.width as int) + q], y - 1));
    }
}
pub proof fn lemma_cnt_split(m: DenseBinaryMatrix, i: int, a: int, b: int, c: int)
    requires a <= b <= c,
    ensures cnt(m, i, a, c) == cnt(m, i, a, b) + cnt(m, i, b, c),
    decreases c - b,
{
    if b < c { lemma_cnt_split(m, i, a, b, c - 1); }
}
pub proof fn lemma_cnt_bounds(m: DenseBinaryMatrix, i: int, a: int, b: int)
    requires a <= b,
    ensures 0 <= cnt(m, i, a, b) <= b - a,
    decreases b - a,
{ if a < b { lemma_cnt_bounds(m, i, a, b - 1); } }
} // verus!
'''


def build():
    u = VUnit('V-DCOUNT')
    u.raw(common.PRELUDE)
    u.raw(common.ARITH)
    u.raw('verus! {')
    u.struct('src/octet.rs', 'Octet', prefix='#[derive(PartialEq, Eq, Structural)]\n')
    u.struct('src/matrix.rs', 'DenseBinaryMatrix')
    u.raw('} // verus!')
    u.raw(v_dense.SPEC)
    u.raw(SPEC)
    u.trust('assume_specification u64::count_ones: population count (std documented behaviour); usize::div_ceil as in V-DENSE')
    u.raw('verus! {')
    u.raw('impl DenseBinaryMatrix {')
    IMPL = 'impl DenseBinaryMatrix'
    u.fn('src/matrix.rs', 'row_word_width', impl=IMPL, ret='r', requires=['self.width <= 0xffff_ffff'], ensures=['r as int == rw(self.width as int)'])
    u.fn('src/matrix.rs', 'word_offset', impl=IMPL, ret='r', ensures=['r as int == col as int / 64'])
    u.fn('src/matrix.rs', 'bit_position', impl=IMPL, ret='r', external_body=True,
         requires=['dm_wf(*self)', 'row < self.height', 'col <= self.width'],
         ensures=['r.0 as int == row as int * rw(self.width as int) + col as int / 64', 'r.1 as int == col as int % 64', 'r.1 < 64'])
    u.trust('bit_position contract: proved in V-DENSE for col < width; here used up to col == width (same arithmetic, no memory access), assumed')
    u.fn('src/matrix.rs', 'select_mask', impl=IMPL, ret='r', requires=['bit < 64'], ensures=['r == 1u64 << (bit as u64)'])
    u.fn('src/matrix.rs', 'select_all_right_of_mask', impl=IMPL, ret='r', requires=['bit < 64'], ensures=['r == ((1u64 << (bit as u64)) - 1) as u64'],
         prepend='proof { assert((1u64 << (bit as u64)) >= 1) by (bit_vector) requires bit < 64; }')
    u.fn('src/matrix.rs', 'select_bit_and_all_left_mask', impl=IMPL, ret='r', requires=['bit < 64'], ensures=['r == !(((1u64 << (bit as u64)) - 1) as u64)'])
    u.raw('}')
    T = 'impl BinaryMatrix for DenseBinaryMatrix'
    W = 'self.width as int'
    u.raw('impl DenseBinaryMatrix {')
    u.fn('src/matrix.rs', 'count_ones', impl=T, ret='r',
         requires=['dm_wf(*self)', 'row < self.height', 'start_col <= end_col', 'end_col <= self.width', 'start_col < self.width'],
         ensures=['r as int == cnt(*self, row as int, start_col as int, end_col as int)'],
         prepend=('let ghost sq = start_col as int / 64; let ghost sx = start_col as int % 64; let ghost eq = end_col as int / 64; let ghost ex = end_col as int % 64; let ghost base = row as int * rw(@W@);\n'
                  'proof { lemma_fundamental_div_mod(start_col as int, 64); lemma_fundamental_div_mod(end_col as int, 64); lemma_mod_bound(start_col as int, 64); lemma_mod_bound(end_col as int, 64);'
                  ' lemma_div_is_ordered(start_col as int, end_col as int, 64); lemma_ceil_div_exact(@W@, 64); lemma_div_pos_is_pos(start_col as int, 64);'
                  ' assert(base >= 0 && base + rw(@W@) <= self.height as int * rw(@W@)) by (nonlinear_arith) requires base == row as int * rw(@W@), 0 <= row as int, row as int + 1 <= self.height as int, rw(@W@) >= 0;'
                  ' assert(sq < rw(@W@)) by { if sq >= rw(@W@) { assert(64 * sq >= 64 * rw(@W@)) by (nonlinear_arith) requires sq >= rw(@W@); } }'
                  ' assert(eq <= rw(@W@) && (eq < rw(@W@) || ex == 0)) by { if eq >= rw(@W@) { assert(64 * eq >= 64 * rw(@W@)) by (nonlinear_arith) requires eq >= rw(@W@); } } }').replace('@W@', W),
         hint_inserts=[('let bits = self.elements[start_word] & mask;', 'after',
                        'proof { assert(start_word as int == base + sq && end_word as int == base + eq); assert(sq == eq); assert(sx <= ex); assert(64 * sq + ex <= self.width as int); lemma_pop_masked(self.elements@[start_word as int], sx as u64, ex as u64, 64); lemma_cnt_word(*self, row as int, sq, sx, ex); }'),
                       ('let mut ones = first_word_bits.count_ones();', 'after',
                        'proof { lemma_pop_masked(self.elements@[start_word as int], sx as u64, 0, 64); lemma_cnt_word(*self, row as int, sq, sx, 64); lemma_pop_bounds(self.elements@[start_word as int], 64); lemma_pop_mono(self.elements@[start_word as int], sx, 64); }'),
                       ('self.elements[end_word] & DenseBinaryMatrix::select_all_right_of_mask(end_bit);', 'after',
                        'proof { lemma_pop_masked(self.elements@[end_word as int], 0, ex as u64, 64); lemma_cnt_word(*self, row as int, eq, 0, ex); lemma_cnt_split(*self, row as int, start_col as int, 64 * eq, end_col as int);'
                        ' lemma_pop_bounds(self.elements@[end_word as int], ex); lemma_cnt_bounds(*self, row as int, start_col as int, 64 * eq); }')],
         loops={0: {'spec': ('invariant dm_wf(*self), row < self.height, start_col <= end_col, end_col <= self.width, sq == start_col as int / 64, eq == end_col as int / 64, sq < eq, eq <= rw(@W@), base == row as int * rw(@W@),'
                             ' base >= 0, base + rw(@W@) <= self.height as int * rw(@W@), start_word as int == base + sq, end_word as int == base + eq, start_word < word, word <= end_word,'
                             ' ones as int == cnt(*self, row as int, start_col as int, 64 * (word as int - base)), 64 * (word as int - base) <= end_col as int,').replace('@W@', W),
                    'body_top': ('proof { let q = word as int - base; lemma_cnt_word(*self, row as int, q, 0, 64); lemma_cnt_split(*self, row as int, start_col as int, 64 * q, 64 * q + 64);'
                                 ' lemma_pop_bounds(self.elements@[word as int], 64); lemma_cnt_bounds(*self, row as int, start_col as int, 64 * q); }')}},
         )
    u.raw('}')
    u.raw('} // verus!')
    return u
