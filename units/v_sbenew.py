"""V-SBENEW (C05, C06, C17, C18): SourceBlockEncoder::with_encoding_plan = create_symbols, then the plan's count check, then plan replay.
For every configuration, block and plan: it returns only when the plan was generated for exactly this block's symbol count (a plan for
another count is refused by panic), the block keeps its number, its source symbols are the RFC 4.4.1.2 symbols of the block bytes, and its
intermediate symbols are the fold of the plan's operations over the D vector built from those symbols."""
from vunit import VUnit
import common
import v_part, v_blocks, v_unpack, v_crsym, v_slab

SPEC = r'''
verus! {
pub proof fn lemma_symbols_len(r: Seq<Symbol>, t: int, al: int, n: int, data: Seq<u8>)
    requires symbols_ok(r, t, al, n, data), layout_ok(t, al, n), data.len() as int % t == 0,
    ensures forall |i: int| 0 <= i < r.len() ==> (#[trigger] r[i]).value@.len() == t,
{
    let k = data.len() as int / t;
    lemma_fundamental_div_mod(data.len() as int, t);
    assert(t * k == k * t) by (nonlinear_arith);
    assert forall |i: int| 0 <= i < r.len() implies (#[trigger] r[i]).value@.len() == t by {
        lemma_sym_pointwise(t, al, n, k, data, i, n as nat);
        lemma_layout(t, al, n, 0);
    }
}
} // verus!
'''


def build():
    u = VUnit('V-SBENEW')
    u.raw(common.PRELUDE + '\nuse std::sync::Arc;\n')
    u.raw(common.ARITH)
    u.raw(common.STD_SPECS)
    for t in common.STD_TRUST:
        u.trust(t)
    u.raw(v_part.SPEC)
    u.raw('verus! {')
    v_blocks.oti_struct_and_accessors(u)
    u.struct('src/octet.rs', 'Octet')
    u.struct('src/symbol_slab.rs', 'SymbolSlab')
    u.struct('src/operation_vector.rs', 'SymbolOps', kind='enum')
    u.struct('src/symbol.rs', 'Symbol')
    u.struct('src/encoder.rs', 'SourceBlockEncodingPlan')
    u.struct('src/encoder.rs', 'SourceBlockEncoder')
    u.raw('''pub open spec fn block_start(k: int, kl: int, ks: int, zl: int, t: int) -> int {
    if k <= zl { k * (kl * t) } else { zl * (kl * t) + (k - zl) * (ks * t) }
}''', label='block_start (same definition as V-BLOCKS)')
    u.raw('} // verus!')
    u.raw(v_slab.SPEC)
    u.raw('verus! {\n' + v_slab.ENC_SPEC.replace('''impl Symbol {
    #[verifier::external_body]
    pub fn as_bytes(&self) -> (r: &[u8]) ensures r@ == self.value@ { unimplemented!() }
}''', '') + '\n} // verus!', label='D vector / plan semantics of V-SLAB')
    u.raw(v_unpack.SPEC.replace('global size_of usize == 8;', ''), label='layout spec of V-UNPACK')
    u.raw(v_crsym.SPEC, label='symbol layout spec of V-CRSYM')
    u.raw(SPEC)
    T, AL, N = 'config.symbol_size as int', 'config.symbol_alignment as int', 'config.num_sub_blocks as int'
    KK = '(data@.len() as int / (%s))' % T
    u.raw('verus! {')
    u.raw('''
pub open spec fn verif_panic_spec() -> bool { false }
#[verifier::external_body]
fn verif_panic<T>() -> (r: T) ensures false { panic!() }
#[verifier::external_body]
fn gen_intermediate_symbols_with_plan(source_block: &[Symbol], symbol_size: usize, operation_vector: &[SymbolOps]) -> (r: SymbolSlab)
    requires source_block@.len() <= 56403, forall |i: int| 0 <= i < source_block@.len() ==> (#[trigger] source_block@[i]).value@.len() == symbol_size as int, symbol_size <= 65535,
             plan_ok(operation_vector@, l_of(source_block@.len() as int)),
    ensures slab_wf(r), r.symbol_size == symbol_size,
            view(r) == apply_ops(d_spec(sym_views(source_block@), symbol_size as int), operation_vector@, operation_vector@.len()),
{ unimplemented!() }
// result of the (deterministic) plan generation for k source symbols (same uninterpreted function as in V-CACHE)
pub uninterp spec fn spec_ops(k: int) -> Seq<SymbolOps>;
#[verifier::external_body]
fn get_or_generate_source_block_encoding_plan(symbol_count: u16) -> (r: Arc<SourceBlockEncodingPlan>)
    ensures r.source_symbol_count == symbol_count, r.operations@ == spec_ops(symbol_count as int),
            plan_ok(spec_ops(symbol_count as int), l_of(symbol_count as int)),      // a generated plan is executable on L(k) symbols (solver, assumed)
{ unimplemented!() }
impl SourceBlockEncoder {
#[verifier::external_body]
fn create_symbols(config: &ObjectTransmissionInformation, data: &[u8]) -> (r: Vec<Symbol>)
    requires layout_ok(%(T)s, %(AL)s, %(N)s), data@.len() as int %% (%(T)s) == 0, %(KK)s <= 56403,
    ensures symbols_ok(r@, %(T)s, %(AL)s, %(N)s, data@),
{ unimplemented!() }
''' % {'T': T, 'AL': AL, 'N': N, 'KK': KK}, label='callee contracts: create_symbols (proved in V-CRSYM), gen_intermediate_symbols_with_plan (proved in V-SLAB)')
    u.trust('create_symbols contract: proved on the real body in V-CRSYM; gen_intermediate_symbols_with_plan contract: proved on the real body in V-SLAB; assumed here')
    u.trust('rule A3: a failing assert_eq! is a refusal (panic), modelled as a call that never returns')
    u.trust('get_or_generate_source_block_encoding_plan: the plan for the requested count (proved in V-CACHE); that a generated plan is executable on L(k) symbols is an assumption on the solver')
    u.fn('src/encoder.rs', 'with_encoding_plan', impl='impl SourceBlockEncoder', ret='r', rules=['A3'],
         requires=['layout_ok(%s, %s, %s)' % (T, AL, N), 'data@.len() as int %% (%s) == 0' % T, '%s <= 56403' % KK,
                   # what a plan generated for its own count provides (SourceBlockEncodingPlan::generate, external): executable on L(count) symbols
                   'plan_ok(plan.operations@, l_of(plan.source_symbol_count as int))'],
         ensures=['plan.source_symbol_count as int == %s' % KK,                      # a plan for another symbol count never gets through
                  'r.source_block_id == source_block_id',
                  'symbols_ok(r.source_symbols@, %s, %s, %s, data@)' % (T, AL, N),
                  'slab_wf(r.intermediate_symbols)', 'r.intermediate_symbols.symbol_size == config.symbol_size as int',
                  'view(r.intermediate_symbols) == apply_ops(d_spec(sym_views(r.source_symbols@), %s), plan.operations@, plan.operations@.len())' % T],
         hint_inserts=[('let intermediate_symbols = gen_intermediate_symbols_with_plan(', 'before',
                        'proof { lemma_symbols_len(source_symbols@, %s, %s, %s, data@); }' % (T, AL, N))])
    # SourceBlockEncoder::new (feature "std": the plan comes from the process-wide cache, whose contract V-CACHE proves)
    u.fn('src/encoder.rs', 'new', impl='impl SourceBlockEncoder', ret='r', rules=['C1', 'A1'],
         requires=['layout_ok(%s, %s, %s)' % (T, AL, N), 'data@.len() as int %% (%s) == 0' % T, '%s <= 56403' % KK],
         ensures=['r.source_block_id == source_block_id',
                  'symbols_ok(r.source_symbols@, %s, %s, %s, data@)' % (T, AL, N),
                  'slab_wf(r.intermediate_symbols)', 'r.intermediate_symbols.symbol_size == config.symbol_size as int',
                  'view(r.intermediate_symbols) == apply_ops(d_spec(sym_views(r.source_symbols@), %s), spec_ops(%s), spec_ops(%s).len())' % (T, KK, KK)],
         hint_inserts=[('let intermediate_symbols = gen_intermediate_symbols_with_plan(', 'before',
                        'proof { lemma_symbols_len(source_symbols@, %s, %s, %s, data@); }' % (T, AL, N))])
    u.raw('}')
    u.raw('} // verus!')
    return u
