"""V-TAB (C15): the table look-up functions return the row of the smallest K' >= K, for every K <= 56403 (and refuse K > 56403)."""
from vunit import VUnit
import common
import v_param

SPEC = r'''
verus! {
pub open spec fn p1kp(i: int) -> int { P1_TABLE[i].0 as int }
pub open spec fn keys_agree_upto(n: nat) -> bool
    decreases n,
{ if n == 0 { true } else { p1kp(n as int - 1) == kp(n as int - 1) && keys_agree_upto((n - 1) as nat) } }
pub proof fn lemma_keys_agree_all()
    ensures keys_agree_upto(477),
{ assert(keys_agree_upto(477)) by (compute_only); }
pub proof fn lemma_keys_agree(n: nat, i: int)
    requires keys_agree_upto(n), 0 <= i < n,
    ensures p1kp(i) == kp(i),
    decreases n,
{ if i < n - 1 { lemma_keys_agree((n - 1) as nat, i); } }
// row index of the smallest K' >= k (RFC 6330 5.3.1: K' is the smallest value in Table 2 that is at least K)
pub open spec fn is_row_of(k: int, idx: int) -> bool {
    0 <= idx < 477 && kp(idx) >= k && forall |j: int| 0 <= j < 477 && #[trigger] kp(j) >= k ==> kp(idx) <= kp(j)
}
pub proof fn lemma_first_hit_is_least(k: int, idx: int)
    requires 0 <= idx < 477, kp(idx) >= k, forall |j: int| 0 <= j < idx ==> #[trigger] kp(j) < k,
    ensures is_row_of(k, idx),
{
    assert forall |j: int| 0 <= j < 477 && #[trigger] kp(j) >= k implies kp(idx) <= kp(j) by {
        if j < idx { } else { lemma_sorted(idx, j); }
    }
}
pub proof fn lemma_sorted_strict(i: int, j: int)
    requires 0 <= i < j <= 476,
    ensures kp(i) < kp(j),
    decreases j - i,
{
    lemma_table_sorted_all();
    lemma_sorted_adj(476, j - 1);
    if i < j - 1 { lemma_sorted_strict(i, j - 1); }
}
pub proof fn lemma_row_unique(k: int, i: int, j: int)
    requires is_row_of(k, i), is_row_of(k, j),
    ensures i == j,
{
    if i < j { lemma_sorted_strict(i, j); }
    if j < i { lemma_sorted_strict(j, i); }
}
pub open spec fn l_ok_upto(n: nat) -> bool
    decreases n,
{
    if n == 0 { true } else {
        let r = SYSTEMATIC_INDICES_AND_PARAMETERS[n as int - 1];
        r.0 + r.2 + r.3 < 65536 && r.0 + r.2 + r.3 > r.4 && l_ok_upto((n - 1) as nat)
    }
}
pub proof fn lemma_l_ok_all()
    ensures l_ok_upto(477),
{ assert(l_ok_upto(477)) by (compute_only); }
pub proof fn lemma_l_ok(n: nat, i: int)
    requires l_ok_upto(n), 0 <= i < n,
    ensures SYSTEMATIC_INDICES_AND_PARAMETERS[i].0 + SYSTEMATIC_INDICES_AND_PARAMETERS[i].2 + SYSTEMATIC_INDICES_AND_PARAMETERS[i].3 < 65536,
            SYSTEMATIC_INDICES_AND_PARAMETERS[i].0 + SYSTEMATIC_INDICES_AND_PARAMETERS[i].2 + SYSTEMATIC_INDICES_AND_PARAMETERS[i].3 > SYSTEMATIC_INDICES_AND_PARAMETERS[i].4,
    decreases n,
{ if i < n - 1 { lemma_l_ok((n - 1) as nat, i); } }
} // verus!
'''


def build():
    u = VUnit('V-TAB')
    u.raw(common.PRELUDE)
    u.raw('verus! {\npub const MAX_SOURCE_SYMBOLS_PER_BLOCK: u32 = 56403;')
    u.const('src/systematic_constants.rs', 'SYSTEMATIC_INDICES_AND_PARAMETERS')
    u.const('src/systematic_constants.rs', 'P1_TABLE')
    u.raw('} // verus!')
    u.raw(v_param.SPEC.split('// RFC 6330 4.3: KL(n)')[0] + '\n} // verus!\n', label='table sortedness computed from the extracted table: depends on /repo')
    u.raw(SPEC, label='P1 table keyed like Table 2: computed from the extracted tables: depends on /repo')
    u.raw('verus! {')
    fields = {'extended_source_block_symbols': '0', 'systematic_index': '1', 'num_ldpc_symbols': '2', 'num_hdpc_symbols': '3', 'num_lt_symbols': '4'}
    for name, f in fields.items():
        u.fn('src/systematic_constants.rs', name, ret='r', rules=['D3_fwd_tuple', 'A1'],
             requires=['source_block_symbols <= 56403'],
             ensures=['exists |idx: int| is_row_of(source_block_symbols as int, idx) && r == SYSTEMATIC_INDICES_AND_PARAMETERS[idx].%s' % f],
             loops={0: {'spec': 'invariant source_block_symbols <= 56403, forall |j: int| 0 <= j < verif_k as int ==> #[trigger] kp(j) < source_block_symbols as int,',
                        'body_top': 'proof { if SYSTEMATIC_INDICES_AND_PARAMETERS[verif_k as int].0 >= source_block_symbols { lemma_first_hit_is_least(source_block_symbols as int, verif_k as int); } }',
                        'after': 'proof { lemma_table_sorted_all(); assert(kp(476) < source_block_symbols as int); }'}})
    u.fn('src/systematic_constants.rs', 'calculate_p1', ret='r', rules=['D3_fwd_tuple', 'A1'],
         requires=['source_block_symbols <= 56403'],
         ensures=['exists |idx: int| is_row_of(source_block_symbols as int, idx) && r == P1_TABLE[idx].1'],
         loops={0: {'spec': 'invariant source_block_symbols <= 56403, forall |j: int| 0 <= j < verif_k as int ==> #[trigger] kp(j) < source_block_symbols as int,',
                    'body_top': 'proof { lemma_keys_agree_all(); lemma_keys_agree(477, verif_k as int); if P1_TABLE[verif_k as int].0 >= source_block_symbols { lemma_first_hit_is_least(source_block_symbols as int, verif_k as int); } }',
                    'after': 'proof { lemma_table_sorted_all(); assert(kp(476) < source_block_symbols as int); }'}})
    u.fn('src/systematic_constants.rs', 'num_intermediate_symbols', ret='r',
         requires=['source_block_symbols <= 56403'],
         ensures=['exists |idx: int| is_row_of(source_block_symbols as int, idx) && r as int == SYSTEMATIC_INDICES_AND_PARAMETERS[idx].0 + SYSTEMATIC_INDICES_AND_PARAMETERS[idx].2 + SYSTEMATIC_INDICES_AND_PARAMETERS[idx].3',
                  'r < 65536'],
         prepend="""proof {
        let k = source_block_symbols as int;
        assert forall |i1: int, i2: int| #[trigger] is_row_of(k, i1) && #[trigger] is_row_of(k, i2) implies i1 == i2 by { lemma_row_unique(k, i1, i2); }
        lemma_l_ok_all();
        assert forall |i: int| 0 <= i < 477 implies #[trigger] SYSTEMATIC_INDICES_AND_PARAMETERS[i].0 + SYSTEMATIC_INDICES_AND_PARAMETERS[i].2 + SYSTEMATIC_INDICES_AND_PARAMETERS[i].3 < 65536
            && SYSTEMATIC_INDICES_AND_PARAMETERS[i].0 + SYSTEMATIC_INDICES_AND_PARAMETERS[i].2 + SYSTEMATIC_INDICES_AND_PARAMETERS[i].3 > SYSTEMATIC_INDICES_AND_PARAMETERS[i].4 by { lemma_l_ok(477, i); }
    }""")
    u.fn('src/systematic_constants.rs', 'num_pi_symbols', ret='r',
         requires=['source_block_symbols <= 56403'],
         ensures=['exists |idx: int| is_row_of(source_block_symbols as int, idx) && r as int == SYSTEMATIC_INDICES_AND_PARAMETERS[idx].0 + SYSTEMATIC_INDICES_AND_PARAMETERS[idx].2 + SYSTEMATIC_INDICES_AND_PARAMETERS[idx].3 - SYSTEMATIC_INDICES_AND_PARAMETERS[idx].4',
                  'r >= 1'],
         prepend="""proof {
        let k = source_block_symbols as int;
        assert forall |i1: int, i2: int| #[trigger] is_row_of(k, i1) && #[trigger] is_row_of(k, i2) implies i1 == i2 by { lemma_row_unique(k, i1, i2); }
        lemma_l_ok_all();
        assert forall |i: int| 0 <= i < 477 implies #[trigger] SYSTEMATIC_INDICES_AND_PARAMETERS[i].0 + SYSTEMATIC_INDICES_AND_PARAMETERS[i].2 + SYSTEMATIC_INDICES_AND_PARAMETERS[i].3 < 65536
            && SYSTEMATIC_INDICES_AND_PARAMETERS[i].0 + SYSTEMATIC_INDICES_AND_PARAMETERS[i].2 + SYSTEMATIC_INDICES_AND_PARAMETERS[i].3 > SYSTEMATIC_INDICES_AND_PARAMETERS[i].4 by { lemma_l_ok(477, i); }
    }""")
    u.raw('} // verus!')
    return u
