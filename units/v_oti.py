"""V-OTI (C19): ObjectTransmissionInformation::new accepts exactly the valid parameter sets (rule A2)."""
from vunit import VUnit
import common

SPEC = r'''
verus! {
pub const MAX_SOURCE_SYMBOLS_PER_BLOCK: u32 = 56403;
// the limits the constructor documents (property C19), over mathematical integers
pub open spec fn oti_valid(f: int, t: int, z: int, al: int) -> bool {
    &&& f <= 942574504275
    &&& t % al == 0
    &&& ceil_div(ceil_div(f, t), z) <= 56403
}
// the spec predicate agrees with the division-free reading of the limit: F <= 56403 * Z * T
pub proof fn lemma_oti_valid_mult(f: int, t: int, z: int)
    requires f >= 0, t > 0, z > 0,
    ensures ceil_div(ceil_div(f, t), z) <= 56403 <==> f <= t * (z * 56403),
{
    lemma_ceil_div_exact(f, t);
    lemma_ceil_div_le(ceil_div(f, t), z, 56403);
    assert(z * 56403 >= 0) by (nonlinear_arith) requires z > 0;
    lemma_ceil_div_le(f, t, z * 56403);
}
} // verus!
'''


def int_div_ceil(u):
    u.fn('src/util.rs', 'int_div_ceil', ret='r',
         requires=['denom > 0'],
         ensures=['r as int == ceil_div(num as int, denom as int) % 0x1_0000_0000',
                  'ceil_div(num as int, denom as int) < 0x1_0000_0000 ==> r as int == ceil_div(num as int, denom as int)'],
         inserts=[('if num.is_multiple_of(denom)', 'before',
                   'proof { lemma_ceil_div_exact(num as int, denom as int);'
                   ' lemma_div_is_ordered_by_denominator(num as int, 1, denom as int); lemma_div_basics(num as int);'
                   ' if ceil_div(num as int, denom as int) < 0x1_0000_0000 { lemma_small_mod(ceil_div(num as int, denom as int) as nat, 0x1_0000_0000nat); }'
                   ' if num as int % denom as int != 0 && num as int / denom as int == 0xffff_ffff_ffff_ffff { lemma_fundamental_div_mod(num as int, denom as int);'
                   '   assert(denom as int * (num as int / denom as int) >= num as int / denom as int) by (nonlinear_arith) requires denom as int >= 1, num as int / denom as int >= 0; }'
                   ' lemma_trunc_u64_u32(num / denom); if num as int % denom as int != 0 { lemma_trunc_u64_u32((num / denom + 1) as u64); } }')],
         resubst=[(r'\(([^()]*)\) as u32', r'#[verifier::truncate] ((\1) as u32)', 'truncate-annot')])


def build():
    u = VUnit('V-OTI')
    u.raw(common.PRELUDE)
    u.raw(common.ARITH)
    u.raw(common.STD_SPECS)
    for t in common.STD_TRUST:
        u.trust(t)
    u.raw(SPEC)
    u.raw('verus! {')
    int_div_ceil(u)
    u.struct('src/base.rs', 'ObjectTransmissionInformation')
    u.raw('impl ObjectTransmissionInformation {')
    u.fn('src/base.rs', 'new', impl='impl ObjectTransmissionInformation', ret='r',
         ret_type='Option<ObjectTransmissionInformation>',
         rules=['A2'],
         subst=[],
         requires=['symbol_size > 0', 'source_blocks > 0', 'alignment > 0'],
         ensures=['r.is_some() <==> oti_valid(transfer_length as int, symbol_size as int, source_blocks as int, alignment as int)',
                  'r.is_some() ==> r.unwrap().transfer_length == transfer_length && r.unwrap().symbol_size == symbol_size'
                  ' && r.unwrap().num_source_blocks == source_blocks && r.unwrap().num_sub_blocks == sub_blocks'
                  ' && r.unwrap().symbol_alignment == alignment'],
         post=['wrap_tail_some'])
    for acc, field in [('transfer_length', 'transfer_length'), ('symbol_size', 'symbol_size'), ('source_blocks', 'num_source_blocks'),
                       ('sub_blocks', 'num_sub_blocks'), ('symbol_alignment', 'symbol_alignment')]:
        u.fn('src/base.rs', acc, impl='impl ObjectTransmissionInformation', ret='r', ensures=['r == self.%s' % field])
    u.raw('}')
    u.raw('} // verus!')
    return u
