"""V-DEC (C01, C02, C08): the decoder around the solver.
SourceBlockDecoder::decode is split by rule D5 into decode_step (per packet) and decode_tail (the case analysis)."""
from vunit import VUnit
import common
import v_oti, v_part, v_blocks, v_enc

SPEC = r'''
verus! {
broadcast use vstd::std_specs::hash::group_hash_axioms;

pub open spec fn count_some(s: Seq<Option<Symbol>>) -> nat
    decreases s.len(),
{
    if s.len() == 0 { 0 } else { count_some(s.drop_last()) + (if s.last().is_some() { 1nat } else { 0nat }) }
}
pub proof fn lemma_count_some_bound(s: Seq<Option<Symbol>>)
    ensures count_some(s) <= s.len(),
            count_some(s) == s.len() ==> forall |i: int| 0 <= i < s.len() ==> (#[trigger] s[i]).is_some(),
            (forall |i: int| 0 <= i < s.len() ==> (#[trigger] s[i]).is_none()) ==> count_some(s) == 0,
    decreases s.len(),
{
    if s.len() > 0 {
        lemma_count_some_bound(s.drop_last());
        if count_some(s) == s.len() {
            assert forall |i: int| 0 <= i < s.len() implies (#[trigger] s[i]).is_some() by {
                if i < s.len() - 1 { assert(s.drop_last()[i] == s[i]); }
            }
        }
        assert forall |i: int| 0 <= i < s.len() - 1 implies s.drop_last()[i] == s[i] by { }
    }
}
pub proof fn lemma_count_some_update(s: Seq<Option<Symbol>>, i: int, v: Symbol)
    requires 0 <= i < s.len(), s[i].is_none(),
    ensures count_some(s.update(i, Some(v))) == count_some(s) + 1, count_some(s) < s.len(),
    decreases s.len(),
{
    let s2 = s.update(i, Some(v));
    if i == s.len() - 1 {
        assert(s2.drop_last() =~= s.drop_last());
        lemma_count_some_bound(s.drop_last());
    } else {
        assert(s2.drop_last() =~= s.drop_last().update(i, Some(v)));
        lemma_count_some_update(s.drop_last(), i, v);
        assert(s2.last() == s.last());
    }
}

// ---- what the block decoder believes it has received (representation invariant INV)
#[verifier::opaque]
pub open spec fn sbd_inv(d: SourceBlockDecoder) -> bool {
    &&& d.source_block_symbols <= 56403
    &&& d.source_symbols@.len() == d.source_block_symbols as int
    &&& d.received_esi@.finite()
    &&& forall |i: int| 0 <= i < d.source_symbols@.len() ==> ((#[trigger] d.source_symbols@[i]).is_some() <==> d.received_esi@.contains(i as u32))
    &&& d.received_source_symbols as int == count_some(d.source_symbols@)
    &&& d.received_esi@.len() == count_some(d.source_symbols@) + d.repair_packets@.len()     // distinct symbols = source symbols + repair symbols
    // every stored payload is exactly one symbol (T bytes): packets come from the encoder of this object
    &&& forall |i: int| 0 <= i < d.source_symbols@.len() && (#[trigger] d.source_symbols@[i]).is_some() ==> d.source_symbols@[i].unwrap().value@.len() == d.symbol_size as int
    &&& forall |j: int| 0 <= j < d.repair_packets@.len() ==> (#[trigger] d.repair_packets@[j]).data@.len() == d.symbol_size as int
    &&& forall |j: int| 0 <= j < d.repair_packets@.len() ==> (#[trigger] d.repair_packets@[j]).payload_id.encoding_symbol_id < 16777216   // PayloadId is a 24-bit id
    // repair packets: exactly the received ESIs >= K, in arrival order, without repetition
    &&& forall |j: int| 0 <= j < d.repair_packets@.len() ==> (#[trigger] d.repair_packets@[j]).payload_id.encoding_symbol_id >= d.source_block_symbols
                        && d.received_esi@.contains(d.repair_packets@[j].payload_id.encoding_symbol_id)
    &&& forall |j: int, k: int| 0 <= j < k < d.repair_packets@.len() ==>
                        (#[trigger] d.repair_packets@[j]).payload_id.encoding_symbol_id != (#[trigger] d.repair_packets@[k]).payload_id.encoding_symbol_id
    &&& forall |e: u32| d.received_esi@.contains(e) && e >= d.source_block_symbols ==>
                        exists |j: int| 0 <= j < d.repair_packets@.len() && (#[trigger] d.repair_packets@[j]).payload_id.encoding_symbol_id == e
}
pub proof fn lemma_inv_basic(d: SourceBlockDecoder)
    requires sbd_inv(d),
    ensures d.source_block_symbols <= 56403, d.source_symbols@.len() == d.source_block_symbols as int,
            d.received_source_symbols as int == count_some(d.source_symbols@),
            d.received_esi@.len() == count_some(d.source_symbols@) + d.repair_packets@.len(),
            count_some(d.source_symbols@) <= d.source_block_symbols as int,
{
    reveal(sbd_inv);
    lemma_count_some_bound(d.source_symbols@);
}
pub open spec fn sbd_basic(d: SourceBlockDecoder) -> bool {
    d.source_block_symbols <= 56403 && d.source_symbols@.len() == d.source_block_symbols as int
    && d.received_source_symbols as int == count_some(d.source_symbols@)
    && d.received_esi@.len() == count_some(d.source_symbols@) + d.repair_packets@.len()
    && count_some(d.source_symbols@) <= d.source_block_symbols as int
}
// configuration fields never change after construction
pub open spec fn sbd_same_params(a: SourceBlockDecoder, b: SourceBlockDecoder) -> bool {
    a.source_block_id == b.source_block_id && a.symbol_size == b.symbol_size && a.num_sub_blocks == b.num_sub_blocks
    && a.symbol_alignment == b.symbol_alignment && a.source_block_symbols == b.source_block_symbols && a.sparse_threshold == b.sparse_threshold
}
// the received state: everything except the write-only `decoded` flag
pub open spec fn sbd_same_received(a: SourceBlockDecoder, b: SourceBlockDecoder) -> bool {
    sbd_same_params(a, b) && a.source_symbols@ == b.source_symbols@ && a.repair_packets@ == b.repair_packets@
    && a.received_source_symbols == b.received_source_symbols && a.received_esi@ == b.received_esi@
}
// abstract effect of delivering one packet (C08: depends only on whether the ESI is new)
pub open spec fn step_spec(o: SourceBlockDecoder, n: SourceBlockDecoder, p: EncodingPacket) -> bool {
    let esi = p.payload_id.encoding_symbol_id;
    if o.received_esi@.contains(esi) {
        sbd_same_received(o, n) && n.decoded == o.decoded                       // duplicate: nothing changes
    } else {
        &&& sbd_same_params(o, n) && n.decoded == o.decoded
        &&& n.received_esi@ == o.received_esi@.insert(esi)
        &&& (esi >= o.source_block_symbols ==> n.repair_packets@ == o.repair_packets@.push(p) && n.source_symbols@ == o.source_symbols@
                                               && n.received_source_symbols == o.received_source_symbols)
        &&& (esi < o.source_block_symbols ==> n.repair_packets@ == o.repair_packets@
                                               && n.source_symbols@ == o.source_symbols@.update(esi as int, Some(Symbol { value: p.data }))
                                               && n.received_source_symbols == o.received_source_symbols + 1)
    }
}

// C08: delivering the same packet again changes nothing; packets with different ESIs commute up to the arrival order of repair packets
pub proof fn lemma_step_idempotent(o: SourceBlockDecoder, m: SourceBlockDecoder, n: SourceBlockDecoder, p: EncodingPacket)
    requires step_spec(o, m, p), step_spec(m, n, p),
    ensures sbd_same_received(m, n),
{
}
pub proof fn lemma_step_commute(o: SourceBlockDecoder, a1: SourceBlockDecoder, a2: SourceBlockDecoder, b1: SourceBlockDecoder, b2: SourceBlockDecoder,
                                p: EncodingPacket, q: EncodingPacket)
    requires p.payload_id.encoding_symbol_id != q.payload_id.encoding_symbol_id,
             step_spec(o, a1, p), step_spec(a1, a2, q), step_spec(o, b1, q), step_spec(b1, b2, p),
             o.source_symbols@.len() == o.source_block_symbols as int,
    ensures a2.received_esi@ == b2.received_esi@, a2.source_symbols@ == b2.source_symbols@,
            a2.received_source_symbols == b2.received_source_symbols,
            a2.repair_packets@.to_multiset() == b2.repair_packets@.to_multiset(),     // same repair packets, possibly in another order
{
    broadcast use vstd::seq_lib::group_to_multiset_ensures;
    let ep = p.payload_id.encoding_symbol_id; let eq = q.payload_id.encoding_symbol_id;
    assert(a2.received_esi@ =~= b2.received_esi@);
    assert(a2.source_symbols@ =~= b2.source_symbols@);
    assert(a2.repair_packets@.to_multiset() =~= b2.repair_packets@.to_multiset());
}
// ---- uninterpreted results of the code left external_body (solver, matrix construction, sub-block layout)
pub uninterp spec fn kprime_of(k: int) -> int;
pub uninterp spec fn s_of(k: int) -> int;
pub uninterp spec fn h_of(k: int) -> int;
pub uninterp spec fn w_of(k: int) -> int;
pub uninterp spec fn j_of(k: int) -> int;
pub uninterp spec fn p1_of(k: int) -> int;
pub open spec fn l_of(k: int) -> int { kprime_of(k) + s_of(k) + h_of(k) }
pub open spec fn p_of(k: int) -> int { l_of(k) - w_of(k) }
pub open spec fn consts_ok(k: int) -> bool {
    k <= kprime_of(k) <= 56403 && 1 <= s_of(k) <= 907 && 1 <= h_of(k) <= 16 && w_of(k) < l_of(k) < 65536 && 10 <= kprime_of(k)
}
// un-interleaving one symbol into the block buffer (the layout itself is V-UNPACK)
pub uninterp spec fn unpack_spec(t: int, al: int, n: int, k: int, before: Seq<u8>, sym: Seq<u8>, idx: int) -> Seq<u8>;
// rebuilt source symbol i from intermediate symbols C: Enc[K', C, Tuple[K', i]]
pub uninterp spec fn rebuilt_spec(k: int, c: SymbolSlab, i: int) -> Seq<u8>;
// the solver (ASSUMED, external): result of the fused inverse on the matrix generated for (K, isis) and the D vector `rows`.
// Assumed independent of the matrix representation (dense/sparse): that is C16/C07 territory.
pub uninterp spec fn solve_std(k: int, isis: Seq<u32>, rows: Seq<Seq<u8>>) -> Option<SymbolSlab>;
pub uninterp spec fn solve_nohdpc(k: int, isis: Seq<u32>, rows: Seq<Seq<u8>>) -> Option<SymbolSlab>;
pub uninterp spec fn matrix_isis<T>(m: T) -> Seq<u32>;       // the ISI list a constraint matrix was generated for
pub uninterp spec fn matrix_k<T>(m: T) -> int;

// block bytes from K symbols: fold of unpack over i (source symbol i if received, else rebuilt from C)
pub open spec fn symbol_i(d: SourceBlockDecoder, c: Option<SymbolSlab>, i: int) -> Seq<u8> {
    if d.source_symbols@[i].is_some() { d.source_symbols@[i].unwrap().value@ } else { rebuilt_spec(d.source_block_symbols as int, c.unwrap(), i) }
}
pub open spec fn assemble(d: SourceBlockDecoder, c: Option<SymbolSlab>, n: nat) -> Seq<u8>
    decreases n,
{
    if n == 0 { Seq::new((d.symbol_size as int * d.source_block_symbols as int) as nat, |i: int| 0u8) }
    else { unpack_spec(d.symbol_size as int, d.symbol_alignment as int, d.num_sub_blocks as int, d.source_block_symbols as int,
                       assemble(d, c, (n - 1) as nat), symbol_i(d, c, n - 1), n - 1) }
}
pub open spec fn block_from(d: SourceBlockDecoder, c: Option<SymbolSlab>) -> Seq<u8> {
    assemble(d, c, d.source_block_symbols as nat)
}

// the ISI list handed to the matrix generators: present source ESIs ascending, then the padding ISIs K..K', then repair ESI + (K'-K) in arrival order
pub open spec fn src_isis(s: Seq<Option<Symbol>>, n: nat) -> Seq<u32>
    decreases n,
{
    if n == 0 { Seq::empty() } else if s[n - 1].is_some() { src_isis(s, (n - 1) as nat).push((n - 1) as u32) } else { src_isis(s, (n - 1) as nat) }
}
pub open spec fn pad_isis(k: int, n: nat) -> Seq<u32> { Seq::new(n, |i: int| (k + i) as u32) }
pub open spec fn rep_isis(r: Seq<EncodingPacket>, pad: int, n: nat) -> Seq<u32> { Seq::new(n, |i: int| (r[i].payload_id.encoding_symbol_id + pad) as u32) }
pub open spec fn isis_spec(d: SourceBlockDecoder) -> Seq<u32> {
    let k = d.source_block_symbols as int;
    src_isis(d.source_symbols@, k as nat) + pad_isis(k, (kprime_of(k) - k) as nat) + rep_isis(d.repair_packets@, kprime_of(k) - k, d.repair_packets@.len())
}
pub proof fn lemma_src_isis_len(s: Seq<Option<Symbol>>, n: nat)
    requires n <= s.len(),
    ensures src_isis(s, n).len() == count_some(s.subrange(0, n as int)), src_isis(s, n).len() <= n,
    decreases n,
{
    if n > 0 {
        lemma_src_isis_len(s, (n - 1) as nat);
        assert(s.subrange(0, n as int).drop_last() =~= s.subrange(0, n as int - 1));
        assert(s.subrange(0, n as int).last() == s[n as int - 1]);
    } else {
        assert(s.subrange(0, 0).len() == 0);
    }
}

// the D vector handed to the solver: `prefix` zero rows (S, or S+H), the received source payloads in ESI order,
// K'-K zero rows for the padding symbols, the repair payloads in arrival order  (RFC 6330 5.3.3.4.2 / 5.4.2.2)
pub open spec fn zero_row(ss: int) -> Seq<u8> { Seq::new(ss as nat, |j: int| 0u8) }
pub open spec fn src_rows(s: Seq<Option<Symbol>>, n: nat) -> Seq<Seq<u8>>
    decreases n,
{
    if n == 0 { Seq::empty() } else if s[n - 1].is_some() { src_rows(s, (n - 1) as nat).push(s[n - 1].unwrap().value@) } else { src_rows(s, (n - 1) as nat) }
}
pub open spec fn dvec_spec(d: SourceBlockDecoder, prefix: int) -> Seq<Seq<u8>> {
    let k = d.source_block_symbols as int;
    let ss = d.symbol_size as int;
    Seq::new(prefix as nat, |i: int| zero_row(ss)) + src_rows(d.source_symbols@, k as nat)
      + Seq::new((kprime_of(k) - k) as nat, |i: int| zero_row(ss)) + Seq::new(d.repair_packets@.len(), |i: int| d.repair_packets@[i].data@)
}
pub open spec fn tpd_spec(d: SourceBlockDecoder, c: Option<SymbolSlab>) -> Option<Seq<u8>> {
    match c { None => None, Some(cc) => Some(block_from(d, Some(cc))) }
}
pub proof fn lemma_src_rows_len(s: Seq<Option<Symbol>>, n: nat)
    requires n <= s.len(),
    ensures src_rows(s, n).len() == src_isis(s, n).len(), src_rows(s, n).len() <= n,
    decreases n,
{
    if n > 0 { lemma_src_rows_len(s, (n - 1) as nat); }
}
pub proof fn lemma_src_count(s: Seq<Option<Symbol>>)
    ensures src_isis(s, s.len()).len() == count_some(s), src_rows(s, s.len()).len() == count_some(s),
{
    lemma_src_isis_len(s, s.len());
    lemma_src_rows_len(s, s.len());
    assert(s.subrange(0, s.len() as int) =~= s);
}
pub proof fn lemma_inv_frame(a: SourceBlockDecoder, b: SourceBlockDecoder)
    requires sbd_inv(a), sbd_same_received(a, b),
    ensures sbd_inv(b),
{
    reveal(sbd_inv);
}
pub proof fn lemma_src_rows_mono(s: Seq<Option<Symbol>>, a: nat, b: nat)
    requires a <= b <= s.len(),
    ensures src_rows(s, a).len() <= src_rows(s, b).len(),
            forall |r: int| 0 <= r < src_rows(s, a).len() ==> #[trigger] src_rows(s, a)[r] == src_rows(s, b)[r],
    decreases b - a,
{
    if a < b { lemma_src_rows_mono(s, a, (b - 1) as nat); }
}
pub proof fn lemma_isis_len(d: SourceBlockDecoder)
    requires sbd_basic(d), d.source_block_symbols as int <= kprime_of(d.source_block_symbols as int),
    ensures isis_spec(d).len() == count_some(d.source_symbols@) + (kprime_of(d.source_block_symbols as int) - d.source_block_symbols as int) + d.repair_packets@.len(),
{
    lemma_src_count(d.source_symbols@);
}
pub proof fn lemma_assemble_frame(a: SourceBlockDecoder, b: SourceBlockDecoder, c: Option<SymbolSlab>, n: nat)
    requires sbd_same_received(a, b),
    ensures assemble(a, c, n) == assemble(b, c, n),
    decreases n,
{
    if n > 0 { lemma_assemble_frame(a, b, c, (n - 1) as nat); }
}
pub proof fn lemma_tpd_frame(a: SourceBlockDecoder, b: SourceBlockDecoder)
    requires sbd_same_received(a, b),
    ensures forall |c: Option<SymbolSlab>| #[trigger] tpd_spec(a, c) == tpd_spec(b, c),
            isis_spec(a) == isis_spec(b), forall |p: int| #[trigger] dvec_spec(a, p) == dvec_spec(b, p),
            block_from(a, None) == block_from(b, None),
{
    assert forall |c: Option<SymbolSlab>| #[trigger] tpd_spec(a, c) == tpd_spec(b, c) by {
        if c.is_some() { lemma_assemble_frame(a, b, c, a.source_block_symbols as nat); }
    }
    lemma_assemble_frame(a, b, None, a.source_block_symbols as nat);
    assert forall |p: int| #[trigger] dvec_spec(a, p) == dvec_spec(b, p) by {
        assert(dvec_spec(a, p) =~= dvec_spec(b, p));
    }
}
// THE ANSWER of a block decoder as a function of its received state and the (assumed) solver: the case analysis of C02
pub open spec fn answer_spec(d: SourceBlockDecoder) -> Option<Seq<u8>> {
    let k = d.source_block_symbols as int;
    let isis = isis_spec(d);
    if d.received_esi@.len() < k { None }                                           // case 1: too few distinct symbols
    else if d.received_source_symbols as int == k { Some(block_from(d, None)) }      // case 2: all source symbols: no solver involved
    else {
        let std = tpd_spec(d, solve_std(k, isis, dvec_spec(d, s_of(k) + h_of(k))));
        if s_of(k) + isis.len() >= l_of(k) {                                          // case 3a: GF(2)-only attempt ...
            let fast = tpd_spec(d, solve_nohdpc(k, isis, dvec_spec(d, s_of(k))));
            if fast.is_some() { fast } else { std }                                   // ... and ALWAYS the standard solve when it fails
        } else { std }                                                                // case 3b
    }
}
} // verus!
'''

# contract text shared with V-UNPACK
UNPACK_REQ = ['self.symbol_size >= 1', 'self.symbol_alignment >= 1', 'self.symbol_size as int % self.symbol_alignment as int == 0',
              '1 <= self.num_sub_blocks as int <= self.symbol_size as int / self.symbol_alignment as int',
              'self.source_block_symbols <= 56403',
              'symbol@.len() == self.symbol_size as int',
              'old(result)@.len() == self.symbol_size as int * self.source_block_symbols as int',
              'symbol_index < self.source_block_symbols as int']
UNPACK_ENS = ['final(result)@ == unpack_spec(self.symbol_size as int, self.symbol_alignment as int, self.num_sub_blocks as int, self.source_block_symbols as int, old(result)@, symbol@, symbol_index as int)',
              'final(result)@.len() == old(result)@.len()']


def sbd_struct(u):
    u.struct('src/decoder.rs', 'SourceBlockDecoder', subst=[('Set<u32>', 'HashSet<u32>')])
    u.struct('src/decoder.rs', 'EncodingParameters', prefix='#[derive(Clone, Copy)]\n')


def const_fns(u):
    for name, sp in [('extended_source_block_symbols', 'kprime_of'), ('num_lt_symbols', 'w_of'), ('systematic_index', 'j_of'), ('calculate_p1', 'p1_of'),
                     ('num_ldpc_symbols', 's_of'), ('num_hdpc_symbols', 'h_of'), ('num_intermediate_symbols', 'l_of'), ('num_pi_symbols', 'p_of')]:
        u.fn('src/systematic_constants.rs', name, ret='r', external_body=True,
             requires=['source_block_symbols <= 56403'],
             ensures=['r as int == %s(source_block_symbols as int)' % sp, 'consts_ok(source_block_symbols as int)'])
    u.trust('contracts of the table look-ups (extended_source_block_symbols, num_*_symbols, systematic_index, calculate_p1) incl. the ranges in consts_ok are discharged by K-TAB (Kani, complete); assumed here')


def build():
    u = VUnit('V-DEC')
    u.raw(common.PRELUDE + '\nuse std::collections::HashSet;\nuse std::iter;\n')
    u.raw(common.ARITH)
    u.raw(common.STD_SPECS)
    for t in common.STD_TRUST:
        u.trust(t)
    u.raw(v_part.SPEC)
    u.raw('verus! {\nglobal size_of usize == 8;\npub const SPARSE_MATRIX_THRESHOLD: u32 = 250;')
    v_enc.base_types(u)
    u.raw('impl EncodingPacket {')
    u.fn('src/base.rs', 'split', impl='impl EncodingPacket', ret='r', ensures=['r.0 == self.payload_id', 'r.1 == self.data'])
    u.raw('}')
    u.raw('impl Symbol {')
    u.fn('src/symbol.rs', 'new', impl='impl Symbol', ret='r', ensures=['r.value == value'])
    u.fn('src/symbol.rs', 'as_bytes', impl='impl Symbol', ret='r', ensures=['r@ == self.value@'])
    u.raw('}')
    v_blocks.oti_struct_and_accessors(u)
    u.raw('''
// opaque types of the code left external_body
#[verifier::external_body] pub struct SymbolSlab { _p: () }
#[verifier::external_body] pub struct DenseOctetMatrix { _p: () }
#[verifier::external_body] pub struct SparseBinaryMatrix { _p: () }
#[verifier::external_body] pub struct DenseBinaryMatrix { _p: () }
pub trait BinaryMatrix { }
impl BinaryMatrix for SparseBinaryMatrix { }
impl BinaryMatrix for DenseBinaryMatrix { }
pub uninterp spec fn slab_rows(s: SymbolSlab) -> Seq<Seq<u8>>;   // logical symbols of a slab
pub uninterp spec fn slab_ss(s: SymbolSlab) -> int;
''', label='opaque external types')
    sbd_struct(u)
    u.raw('} // verus!')
    u.raw(SPEC)
    u.raw('verus! {')
    v_oti.int_div_ceil(u)
    v_part.partition(u, external=True)
    u.trust('partition contract: proved on the real body in V-PART; assumed here')
    const_fns(u)
    # --- slab operations used to build D (contracts proved in V-SLAB)
    u.raw('''
impl SymbolSlab {
    #[verifier::external_body]
    pub fn with_zeros(count: usize, symbol_size: usize) -> (r: SymbolSlab)
        requires count as int * symbol_size as int <= usize::MAX,
        ensures slab_rows(r).len() == count as int, slab_ss(r) == symbol_size as int,
                forall |i: int| 0 <= i < count as int ==> #[trigger] slab_rows(r)[i] == Seq::new(symbol_size as nat, |j: int| 0u8),
    { unimplemented!() }
    #[verifier::external_body]
    pub fn get_mut(&mut self, i: usize) -> (r: &mut [u8])
        requires (i as int) < slab_rows(*old(self)).len(),
        ensures r@ == slab_rows(*old(self))[i as int], final(r)@.len() == r@.len(), r@.len() == slab_ss(*old(self)),
                slab_rows(*final(self)) == slab_rows(*old(self)).update(i as int, final(r)@), slab_ss(*final(self)) == slab_ss(*old(self)),
    { unimplemented!() }
}
''', label='SymbolSlab::with_zeros/get_mut contracts (proved on the real bodies in V-SLAB)')
    u.trust('SymbolSlab::with_zeros / get_mut contracts: proved on the real bodies in unit V-SLAB; assumed here')
    u.raw('''
#[verifier::external_body]
fn verif_copy_from_slice(dst: &mut [u8], src: &[u8])
    requires old(dst)@.len() == src@.len(),
    ensures final(dst)@ == src@,
{ unimplemented!() }
''', label='<[u8]>::copy_from_slice model (rule S1)')
    u.trust('<[u8]>::copy_from_slice(dst, src): panics unless equal length, then dst == src (std documented behaviour; rule S1)')
    u.raw('''
#[verifier::external_body]
fn verif_none_vec(n: usize) -> (r: Vec<Option<Symbol>>)
    ensures r@.len() == n as int, forall |i: int| 0 <= i < n as int ==> (#[trigger] r@[i]).is_none(),
{ unimplemented!() }
''', label='vec![None; n] model (rule S1)')
    u.trust('vec![None; n] (alloc::vec::from_elem on Option<Symbol>): n copies of None (std documented behaviour; rule S1)')
    # --- matrix generators + solver: external, deterministic functions of their arguments
    u.raw('''
#[verifier::external_body]
fn generate_constraint_matrix<T: BinaryMatrix>(source_block_symbols: u32, encoded_symbol_indices: &[u32]) -> (r: (T, DenseOctetMatrix))
    requires source_block_symbols <= 56403,
             s_of(source_block_symbols as int) + h_of(source_block_symbols as int) + encoded_symbol_indices@.len() >= l_of(source_block_symbols as int),
    ensures matrix_isis(r.0) == encoded_symbol_indices@, matrix_k(r.0) == source_block_symbols as int,
{ unimplemented!() }
#[verifier::external_body]
fn generate_constraint_matrix_no_hdpc<T: BinaryMatrix>(source_block_symbols: u32, encoded_symbol_indices: &[u32]) -> (r: T)
    requires source_block_symbols <= 56403,
             s_of(source_block_symbols as int) + encoded_symbol_indices@.len() >= l_of(source_block_symbols as int),
    ensures matrix_isis(r) == encoded_symbol_indices@, matrix_k(r) == source_block_symbols as int,
{ unimplemented!() }
''', label='matrix generators (external)')
    u.trust('generate_constraint_matrix{,_no_hdpc}: external; assumed to build the RFC 6330 5.3.3.4.2 matrix for exactly the given ISI list (their asserts on the row count are kept as preconditions)')
    u.raw("""
#[verifier::external_body] pub struct SymbolOps { _p: () }
#[verifier::external_body]
fn fused_inverse_mul_symbols<T: BinaryMatrix>(matrix: T, hdpc_rows: DenseOctetMatrix, symbols: SymbolSlab, num_source_symbols: u32) -> (r: (Option<SymbolSlab>, Option<Vec<SymbolOps>>))
    ensures r.0 == solve_std(matrix_k(matrix), matrix_isis(matrix), slab_rows(symbols)),
{ unimplemented!() }
#[verifier::external_body]
fn fused_inverse_mul_symbols_no_hdpc<T: BinaryMatrix>(matrix: T, symbols: SymbolSlab, num_source_symbols: u32) -> (r: (Option<SymbolSlab>, Option<Vec<SymbolOps>>))
    ensures r.0 == solve_nohdpc(matrix_k(matrix), matrix_isis(matrix), slab_rows(symbols)),
{ unimplemented!() }
""", label='solver (external, assumed)')
    u.trust('pi_solver::fused_inverse_mul_symbols{,_no_hdpc}: external; ASSUMED to be a deterministic function of (K, ISI list, D rows) that returns Some(C) only for the unique solution C of the '
            'constraint system and None only when it is rank deficient, independent of the matrix representation; rank exactness itself (C02) is NOT decided')
    PARAMS_OK = ['old(self).symbol_size >= 1', 'old(self).symbol_alignment >= 1', 'old(self).symbol_size as int % old(self).symbol_alignment as int == 0',
                 '1 <= old(self).num_sub_blocks as int <= old(self).symbol_size as int / old(self).symbol_alignment as int']
    u.raw('impl SourceBlockDecoder {')
    u.fn('src/decoder.rs', 'new', impl='impl SourceBlockDecoder', ret='r',
         requires=['config.symbol_size >= 1', 'block_length as int == (block_length as int / config.symbol_size as int) * config.symbol_size as int', 'block_length as int / config.symbol_size as int <= 56403'],
         ensures=['sbd_inv(r)', 'r.source_block_id == source_block_id', 'r.symbol_size == config.symbol_size', 'r.num_sub_blocks == config.num_sub_blocks',
                  'r.symbol_alignment == config.symbol_alignment', 'r.source_block_symbols as int == block_length as int / config.symbol_size as int',
                  'r.received_esi@ == Set::<u32>::empty()', 'r.repair_packets@.len() == 0', 'r.sparse_threshold == SPARSE_MATRIX_THRESHOLD'],
         prepend='proof { reveal(sbd_inv); lemma_ceil_div_exact(block_length as int, config.symbol_size as int); lemma_mod_multiples_basic(block_length as int / config.symbol_size as int, config.symbol_size as int);'
                 ' assert forall |v: Seq<Option<Symbol>>| (forall |i: int| 0 <= i < v.len() ==> (#[trigger] v[i]).is_none()) implies #[trigger] count_some(v) == 0 by { lemma_count_some_bound(v); } }',
         resubst=[(r'vec!\[None; ([^\]]+)\]', r'verif_none_vec(\1)', 'S1-vec-from-elem-None'), (r'Set::new\(\)', 'HashSet::new()', 'cfg-std-Set')])
    u.fn('src/decoder.rs', 'unpack_sub_blocks', impl='impl SourceBlockDecoder', ret='r', external_body=True,
         requires=UNPACK_REQ, ensures=UNPACK_ENS)
    u.trust('SourceBlockDecoder::unpack_sub_blocks contract: proved on the real body in unit V-UNPACK (C05); assumed here')
    u.fn('src/decoder.rs', 'rebuild_source_symbol_into', impl='impl SourceBlockDecoder', ret='r', external_body=True,
         requires=['old(dest)@.len() == self.symbol_size as int', 'source_symbol_id < self.source_block_symbols'],
         ensures=['final(dest)@ == rebuilt_spec(self.source_block_symbols as int, *intermediate_symbols, source_symbol_id as int)', 'final(dest)@.len() == old(dest)@.len()'])
    u.trust('rebuild_source_symbol_into: here only its frame (dest keeps its length; result a function of K, the slab and the id) is assumed; that it writes Enc[K\', C, Tuple[K\', i]] is proved on the real body in V-REBUILD (rule I1)')
    STEP_PROOF = ('proof { let esi = payload_id.encoding_symbol_id; }')
    u.fn('src/decoder.rs', 'decode', impl='impl SourceBlockDecoder', rename='decode_step', d5='step', ret='r',
         sig_override='fn decode_step(&mut self, packet: EncodingPacket)',
         rules=['A1'], prepend='proof { reveal(sbd_inv); }',
         requires=['sbd_inv(*old(self))', 'packet.payload_id.source_block_number == old(self).source_block_id', 'packet.data@.len() == old(self).symbol_size as int', 'packet.payload_id.encoding_symbol_id < 16777216'],
         ensures=['sbd_inv(*final(self))', 'step_spec(*old(self), *final(self), packet)'],
         inserts=[('self.received_source_symbols += 1;', 'before',
                   'proof { lemma_count_some_update(old(self).source_symbols@, payload_id.encoding_symbol_id as int, Symbol { value: payload }); }'),
                  ],
         append='''proof {
    let o = *old(self); let n = *self; let esi = packet.payload_id.encoding_symbol_id;
    if o.received_esi@.contains(esi) {
        assert(n.received_esi@ =~= o.received_esi@);
    } else if esi >= o.source_block_symbols {
        assert(n.repair_packets@[o.repair_packets@.len() as int] == packet);
        assert forall |e: u32| n.received_esi@.contains(e) && e >= n.source_block_symbols implies
            exists |j: int| 0 <= j < n.repair_packets@.len() && (#[trigger] n.repair_packets@[j]).payload_id.encoding_symbol_id == e by {
            if e == esi { assert(n.repair_packets@[o.repair_packets@.len() as int].payload_id.encoding_symbol_id == e); }
            else {
                assert(o.received_esi@.contains(e));
                let j = choose |j: int| 0 <= j < o.repair_packets@.len() && (#[trigger] o.repair_packets@[j]).payload_id.encoding_symbol_id == e;
                assert(n.repair_packets@[j] == o.repair_packets@[j]);
            }
        }
        assert forall |j: int| 0 <= j < n.repair_packets@.len() implies (#[trigger] n.repair_packets@[j]).payload_id.encoding_symbol_id >= n.source_block_symbols
            && n.received_esi@.contains(n.repair_packets@[j].payload_id.encoding_symbol_id) by {
            if j < o.repair_packets@.len() { assert(n.repair_packets@[j] == o.repair_packets@[j]); }
        }
        assert forall |j: int, k: int| 0 <= j < k < n.repair_packets@.len() implies
            (#[trigger] n.repair_packets@[j]).payload_id.encoding_symbol_id != (#[trigger] n.repair_packets@[k]).payload_id.encoding_symbol_id by {
            assert(n.repair_packets@[j] == o.repair_packets@[j]);
            if k < o.repair_packets@.len() { assert(n.repair_packets@[k] == o.repair_packets@[k]); }
        }
    } else {
        assert forall |e: u32| n.received_esi@.contains(e) && e >= n.source_block_symbols implies
            exists |j: int| 0 <= j < n.repair_packets@.len() && (#[trigger] n.repair_packets@[j]).payload_id.encoding_symbol_id == e by {
            assert(o.received_esi@.contains(e));
        }
    }
}''')
    def tpd(name, solver, extra_args):
        inv = ('invariant i <= self.source_block_symbols as usize, result@.len() == self.symbol_size as int * self.source_block_symbols as int, [?rebuilt_buf: rebuilt_buf@.len() == self.symbol_size as int, ?]'
               ' sbd_inv(*self), sbd_same_received(*old(self), *self), self.decoded == old(self).decoded,'
               ' self.symbol_size >= 1, self.symbol_alignment >= 1, self.symbol_size as int % self.symbol_alignment as int == 0,'
               ' 1 <= self.num_sub_blocks as int <= self.symbol_size as int / self.symbol_alignment as int,'
               ' result@ == assemble(*old(self), Some(intermediate_symbols), i as nat),')
        u.fn('src/decoder.rs', name, impl='impl SourceBlockDecoder', ret='r',
             requires=['sbd_inv(*old(self))'] + PARAMS_OK + ['matrix_k(constraint_matrix) == old(self).source_block_symbols as int'],
             ensures=['sbd_same_received(*old(self), *final(self))',
                      'match r { Some(v) => Some(v@), None => None } == tpd_spec(*old(self), %s(old(self).source_block_symbols as int, matrix_isis(constraint_matrix), slab_rows(symbols)))' % solver],
             sig_subst=[('constraint_matrix: impl BinaryMatrix', 'constraint_matrix: T'), ('fn %s(' % name, 'fn %s<T: BinaryMatrix>(' % name)],
             inserts=[('let mut result = vec![0;', 'before',
                       'proof { assert(self.symbol_size as int * self.source_block_symbols as int <= 65535 * 56403) by (nonlinear_arith) requires self.symbol_size <= 65535, self.source_block_symbols <= 56403; }')],
             prepend='proof { reveal(sbd_inv); }',
             loops={0: {'spec': inv, 'body_top': 'proof { reveal(sbd_inv); }'}})
    tpd('try_pi_decode', 'solve_std', '')
    tpd('try_pi_decode_no_hdpc', 'solve_nohdpc', '')
    K = 'self.source_block_symbols as int'
    frame = ('sbd_inv(*self), sbd_basic(*self), sbd_same_received(*old(self), *self), consts_ok(%s),'
             ' num_extended_symbols as int == kprime_of(%s), num_padding_symbols as int == kprime_of(%s) - %s,'
             ' self.symbol_size >= 1, self.symbol_alignment >= 1, self.symbol_size as int %% self.symbol_alignment as int == 0,'
             ' 1 <= self.num_sub_blocks as int <= self.symbol_size as int / self.symbol_alignment as int, self.repair_packets@.len() <= 16777216,' % (K, K, K, K))
    frame3 = frame + (' s as int == s_of(%s), h as int == h_of(%s), l as int == l_of(%s),' % (K, K, K))
    ISIS = 'src_isis(self.source_symbols@, %s as nat)' % K
    PAD = 'pad_isis(%s, (kprime_of(%s) - %s) as nat)' % (K, K, K)

    def dbuild(slab, prefix, total):
        """invariants of the three loops that fill one D vector (pointwise description of the rows)"""
        rows = 'slab_rows(%s)' % slab
        SR = 'src_rows(self.source_symbols@, %s as nat)'
        base = frame3 + (' encoded_isis@ == isis_spec(*self), slab_rows(%s).len() == %s as int, slab_ss(%s) == self.symbol_size as int, ss == self.symbol_size as usize,'
                         ' %s as int == %s as int + self.received_source_symbols as int + num_padding as int + num_repair as int,'
                         ' num_padding as int == kprime_of(%s) - %s, num_repair == self.repair_packets@.len(),' % (slab, total, slab, total, prefix, K, K))
        l4 = ('invariant ' + base + ' row as int == %s as int + src_rows(self.source_symbols@, verif_k as nat).len(),'
              ' forall |r: int| 0 <= r < %s as int ==> #[trigger] %s[r] == (if (%s as int <= r && r < (row as int)) { src_rows(self.source_symbols@, verif_k as nat)[r - %s as int] } else { zero_row(self.symbol_size as int) }),'
              % (prefix, total, rows, prefix, prefix))
        l5 = ('invariant ' + base + ' row as int == %s as int + self.received_source_symbols as int + (_i as int - %s), %s <= _i as int,'
              ' forall |r: int| 0 <= r < %s as int ==> #[trigger] %s[r] == (if (%s as int <= r && r < %s as int + (self.received_source_symbols as int)) { %s[r - %s as int] } else { zero_row(self.symbol_size as int) }),'
              % (prefix, K, K, total, rows, prefix, prefix, SR % K, prefix))
        l6 = ('invariant ' + base + ' row as int == %s as int + self.received_source_symbols as int + num_padding as int + verif_it.index@,'
              ' forall |r: int| 0 <= r < %s as int ==> #[trigger] %s[r] == (if (%s as int <= r && r < %s as int + (self.received_source_symbols as int)) { %s[r - %s as int] }'
              ' else if (%s as int + self.received_source_symbols as int + num_padding as int <= r && r < (row as int)) { self.repair_packets@[r - (%s as int + self.received_source_symbols as int + num_padding as int)].data@ }'
              ' else { zero_row(self.symbol_size as int) }),'
              % (prefix, total, rows, prefix, prefix, SR % K, prefix, prefix, prefix))
        return l4, l5, l6
    a4, a5, a6 = dbuild('d_no_hdpc', 's', 'total_no_hdpc')
    b4, b5, b6 = dbuild('d', '(s + h)', 'total')
    SRC_STEP = 'proof { reveal(sbd_inv); lemma_src_rows_mono(self.source_symbols@, (verif_k + 1) as nat, self.source_symbols@.len()); lemma_src_rows_len(self.source_symbols@, verif_k as nat); lemma_src_rows_len(self.source_symbols@, (verif_k + 1) as nat); lemma_src_count(self.source_symbols@); }'
    SRC_DONE = 'proof { lemma_src_count(self.source_symbols@); }'
    DV_DONE = ('proof { lemma_src_count(self.source_symbols@); assert(slab_rows(%s) =~= dvec_spec(*self, %s as int)); lemma_tpd_frame(*old(self), *self); }')
    u.fn('src/decoder.rs', 'decode', impl='impl SourceBlockDecoder', rename='decode_tail', d5='tail', ret='r',
         sig_override='fn decode_tail(&mut self) -> Option<Vec<u8>>', isolate_loops=True,
         rules=['D1', 'D2', 'A1'], prepend='proof { lemma_inv_basic(*self); }',
         requires=['sbd_inv(*old(self))'] + PARAMS_OK + ['old(self).repair_packets@.len() <= 16777216'],
         ensures=['sbd_same_received(*old(self), *final(self))',
                  'match r { Some(v) => Some(v@), None => None } == answer_spec(*old(self))'],
         resubst=[(r'for repair_packet in self\.repair_packets\.iter\(\) \{', 'for repair_packet in verif_it: self.repair_packets.iter() {', 'name-iterator')],
         inserts=[('let num_extended_symbols = extended_source_block_symbols', 'after',
                   'proof { lemma_src_count(self.source_symbols@); lemma_count_some_bound(self.source_symbols@); }'),
                  ('let mut result =', 'before',
                   'proof { assert(self.symbol_size as int * self.source_block_symbols as int <= 65535 * 56403) by (nonlinear_arith) requires self.symbol_size <= 65535, self.source_block_symbols <= 56403; }'),
                  ('let mut encoded_isis = vec![];', 'replace', 'let mut encoded_isis: Vec<u32> = vec![];'),
                  ('let num_padding = (num_extended_symbols', 'before',
                   'proof { lemma_src_count(self.source_symbols@); assert(encoded_isis@ =~= isis_spec(*self)); lemma_isis_len(*self); }'),
                  ('let mut d_no_hdpc = SymbolSlab::with_zeros', 'before',
                   'proof { assert(total_no_hdpc as int * ss as int <= (907 + 56403 + 56403 + 16777216) * 65535) by (nonlinear_arith) requires total_no_hdpc as int <= 907 + 56403 + 56403 + 16777216, ss <= 65535; }'),
                  ('let total = s + h + self.received_source_symbols', 'before',
                   'proof { lemma_inv_frame(*old(self), *self); lemma_inv_basic(*self); lemma_tpd_frame(*old(self), *self); }'),
                  ('let mut d = SymbolSlab::with_zeros', 'before',
                   'proof { assert(total as int * ss as int <= (907 + 16 + 56403 + 56403 + 16777216) * 65535) by (nonlinear_arith) requires total as int <= 907 + 16 + 56403 + 56403 + 16777216, ss <= 65535; }'),
                  ('let result = if num_extended_symbols >= self.sparse_threshold', 'before', DV_DONE % ('d_no_hdpc', 's')),
                  ('if num_extended_symbols >= self.sparse_threshold {\n            let (constraint_matrix, hdpc)', 'before', DV_DONE % ('d', '(s + h)')),
                  ],
         loops={
             0: {'spec': 'invariant ' + frame + ' result@.len() == self.symbol_size as int * self.source_block_symbols as int, self.received_source_symbols as int == %s,'
                         ' forall |j: int| 0 <= j < %s ==> (#[trigger] self.source_symbols@[j]).is_some() && self.source_symbols@[j].unwrap().value@.len() == self.symbol_size as int,'
                         ' result@ == assemble(*old(self), None, i as nat),' % (K, K),
                 'before': 'proof { reveal(sbd_inv); lemma_count_some_bound(self.source_symbols@); }'},
             1: {'spec': 'invariant ' + frame3 + ' encoded_isis@ == src_isis(self.source_symbols@, i as nat),'},
             2: {'before': 'proof { assert(encoded_isis@ =~= %s + pad_isis(%s, 0)); }' % (ISIS, K),
                 'spec': 'invariant ' + frame3 + ' %s <= i as int, encoded_isis@ == %s + pad_isis(%s, (i as int - %s) as nat),' % (K, ISIS, K, K),
                 'body_bottom': 'proof { assert(encoded_isis@ =~= %s + pad_isis(%s, (i as int + 1 - %s) as nat)); }' % (ISIS, K, K)},
             3: {'before': 'proof { assert(encoded_isis@ =~= %s + %s + rep_isis(self.repair_packets@, kprime_of(%s) - %s, 0)); }' % (ISIS, PAD, K, K),
                 'body_top': 'proof { reveal(sbd_inv); }',
                 'spec': 'invariant ' + frame3 + ' encoded_isis@ == %s + %s + rep_isis(self.repair_packets@, kprime_of(%s) - %s, verif_it.index@ as nat),' % (ISIS, PAD, K, K),
                 'body_bottom': 'proof { assert(encoded_isis@ =~= %s + %s + rep_isis(self.repair_packets@, kprime_of(%s) - %s, (verif_it.index@ + 1) as nat)); }' % (ISIS, PAD, K, K)},
             4: {'spec': a4, 'body_top': SRC_STEP}, 5: {'spec': a5, 'before': SRC_DONE}, 6: {'spec': a6, 'body_top': 'proof { reveal(sbd_inv); }'},
             7: {'spec': b4, 'body_top': SRC_STEP}, 8: {'spec': b5, 'before': SRC_DONE}, 9: {'spec': b6, 'body_top': 'proof { reveal(sbd_inv); }'},
         })
    # glue for rule D5: decode(iter::once(p)) == decode_step(p); decode_tail()   (definitional for a one-element iterator)
    u.raw("""
    fn decode_once(&mut self, packet: EncodingPacket) -> (r: Option<Vec<u8>>)
        requires sbd_inv(*old(self)), packet.payload_id.source_block_number == old(self).source_block_id,
                 packet.data@.len() == old(self).symbol_size as int, packet.payload_id.encoding_symbol_id < 16777216,
                 old(self).symbol_size >= 1, old(self).symbol_alignment >= 1, old(self).symbol_size as int % old(self).symbol_alignment as int == 0,
                 1 <= old(self).num_sub_blocks as int <= old(self).symbol_size as int / old(self).symbol_alignment as int,
                 old(self).repair_packets@.len() < 16777216,
        ensures sbd_inv(*final(self)), sbd_same_params(*old(self), *final(self)),
                exists |mid: SourceBlockDecoder| #[trigger] step_spec(*old(self), mid, packet) && sbd_same_received(mid, *final(self))
                    && match r { Some(v) => Some(v@), None => None } == answer_spec(mid),
    {
        self.decode_step(packet);
        let ghost mid = *self;
        proof { reveal(sbd_inv); }
        let r = self.decode_tail();
        proof { lemma_inv_frame(mid, *self); }
        r
    }
""", label='rule D5 glue: decode(iter::once(p)) = decode_step(p); decode_tail()')
    u.raw('}')   # end impl SourceBlockDecoder
    # ---------------- object decoder
    u.struct('src/decoder.rs', 'Decoder')
    u.raw(v_blocks.SPEC.replace('global size_of usize == 8;', '').replace('verus! {', '', 1).rsplit('} // verus!', 1)[0], label='block layout spec (shared with V-BLOCKS)')
    u.raw("""
pub open spec fn blocks_all_some(b: Seq<Option<Vec<u8>>>, n: nat) -> bool
    decreases n,
{ if n == 0 { true } else { b[n - 1].is_some() && blocks_all_some(b, (n - 1) as nat) } }
pub open spec fn blocks_concat(b: Seq<Option<Vec<u8>>>, n: nat) -> Seq<u8>
    decreases n,
{ if n == 0 { Seq::empty() } else { blocks_concat(b, (n - 1) as nat) + (if b[n - 1].is_some() { b[n - 1].unwrap()@ } else { Seq::empty() }) } }
// what the object decoder answers, as a function of the memoised blocks only (C01: never longer than F; C08: interface agreement)
pub open spec fn result_spec(d: Decoder) -> Option<Seq<u8>> {
    if blocks_all_some(d.blocks@, d.blocks@.len()) {
        let all = blocks_concat(d.blocks@, d.blocks@.len());
        Some(if all.len() > d.config.transfer_length as int { all.subrange(0, d.config.transfer_length as int) } else { all })
    } else { None }
}
pub open spec fn sbd_params_ok(d: SourceBlockDecoder, c: ObjectTransmissionInformation) -> bool {
    d.symbol_size == c.symbol_size && d.num_sub_blocks == c.num_sub_blocks && d.symbol_alignment == c.symbol_alignment
    && d.symbol_size >= 1 && d.symbol_alignment >= 1 && d.symbol_size as int % d.symbol_alignment as int == 0
    && 1 <= d.num_sub_blocks as int <= d.symbol_size as int / d.symbol_alignment as int
}
pub open spec fn cfg_full_ok(c: ObjectTransmissionInformation) -> bool {
    cfg_ok(c) && c.symbol_alignment >= 1 && c.symbol_size as int % c.symbol_alignment as int == 0
    && 1 <= c.num_sub_blocks as int <= c.symbol_size as int / c.symbol_alignment as int
}
pub open spec fn dec_wf(d: Decoder) -> bool {
    let z = d.config.num_source_blocks as int;
    let kt = kt_of(d.config);
    &&& cfg_full_ok(d.config)
    &&& d.block_decoders@.len() == z && d.blocks@.len() == z
    &&& forall |b: int| 0 <= b < z ==> sbd_inv(#[trigger] d.block_decoders@[b]) && sbd_params_ok(d.block_decoders@[b], d.config)
            && d.block_decoders@[b].source_block_id as int == b
            // block sizes follow Partition[Kt, Z]: the first ZL blocks have KL symbols, the others KS
            && d.block_decoders@[b].source_block_symbols as int == (if b < kt - (kt / z) * z { ceil_div(kt, z) } else { kt / z })
}
// effect of delivering one packet to the object decoder (decode and add_new_packet share it: interface agreement, C08)
pub open spec fn dec_step_ok(o: Decoder, n: Decoder, p: EncodingPacket) -> bool {
    let bn = p.payload_id.source_block_number as int;
    &&& dec_wf(n) && n.config == o.config
    &&& forall |b: int| 0 <= b < o.blocks@.len() && b != bn ==> #[trigger] n.blocks@[b] == o.blocks@[b] && n.block_decoders@[b] == o.block_decoders@[b]
    // memoisation: once a block has an answer it never changes, and later packets for it are ignored
    &&& (o.blocks@[bn].is_some() ==> n.blocks@ == o.blocks@ && n.block_decoders@ == o.block_decoders@)
    &&& (o.blocks@[bn].is_none() ==> exists |mid: SourceBlockDecoder| #[trigger] step_spec(o.block_decoders@[bn], mid, p)
             && sbd_same_received(mid, n.block_decoders@[bn])
             && (match n.blocks@[bn] { Some(v) => Some(v@), None => None }) == answer_spec(mid))
}
#[verifier::external_body]
fn verif_none_blocks(n: usize) -> (r: Vec<Option<Vec<u8>>>)
    ensures r@.len() == n as int, forall |i: int| 0 <= i < n as int ==> (#[trigger] r@[i]).is_none(),
{ unimplemented!() }
#[verifier::external_body]
fn verif_extend_from_ref(v: &mut Vec<u8>, b: &Vec<u8>)
    ensures final(v)@ == old(v)@ + b@,
{ unimplemented!() }
""", label='object decoder spec')
    u.trust('Vec::<u8>::extend(&Vec<u8>) appends the bytes (rule S2: call rewritten to a trusted model function); vec![None; n] model for Vec<Option<Vec<u8>>>')
    u.raw("""
pub proof fn lemma_not_all_some(b: Seq<Option<Vec<u8>>>, n: nat, i: int)
    requires 0 <= i < n <= b.len(), b[i].is_none(),
    ensures !blocks_all_some(b, n),
    decreases n,
{ if i < n - 1 { lemma_not_all_some(b, (n - 1) as nat, i); } }
pub proof fn lemma_all_some_at(b: Seq<Option<Vec<u8>>>, n: nat, i: int)
    requires 0 <= i < n <= b.len(), blocks_all_some(b, n),
    ensures b[i].is_some(),
    decreases n,
{ if i < n - 1 { lemma_all_some_at(b, (n - 1) as nat, i); } }
""", label='lemmas on the memoised block list')
    u.raw('impl Decoder {')
    mk = ('invariant cfg_full_ok(config), kt as int == kt_of(config), kl as int == ceil_div(kt as int, config.num_source_blocks as int), ks as int == kt as int / config.num_source_blocks as int,'
          ' zl as int == kt as int - (ks as int) * config.num_source_blocks as int, zl as int + zs as int == config.num_source_blocks as int, kl <= 56403, ks <= kl,'
          ' decoders@.len() == i as int,'
          ' forall |b: int| 0 <= b < i as int ==> sbd_inv(#[trigger] decoders@[b]) && sbd_params_ok(decoders@[b], config) && decoders@[b].source_block_id as int == b'
          ' && decoders@[b].source_block_symbols as int == (if b < zl as int { kl as int } else { ks as int }),')
    u.fn('src/decoder.rs', 'new', impl='impl Decoder', ret='r',
         requires=['cfg_full_ok(config)'],
         ensures=['dec_wf(r)', 'r.config == config', 'forall |b: int| 0 <= b < r.blocks@.len() ==> (#[trigger] r.blocks@[b]).is_none()'],
         subst=[('blocks: vec![None; (zl + zs) as usize],', 'blocks: verif_none_blocks((zl + zs) as usize),', 'S1-vec-from-elem-None'),
                ('let mut decoders = vec![];', 'let mut decoders: Vec<SourceBlockDecoder> = vec![];', 'type-annotation')],
         inserts=[('let kt = int_div_ceil', 'before', 'proof { lemma_kt_bounds(config); }'),
                  ('let mut decoders', 'before', 'proof { lemma_partition(kt as int, config.num_source_blocks as int); lemma_ceil_div_le(kt as int, config.num_source_blocks as int, 56403); }')],
         loops={0: {'spec': mk + ' i <= zl,', 'body_top': 'proof { lemma_mul_div(kl as int, config.symbol_size as int); }'},
                1: {'spec': mk + ' zl <= i, i <= zl + zs,', 'body_top': 'proof { lemma_mul_div(ks as int, config.symbol_size as int); }'}})
    PKT_REQ = ['dec_wf(*old(self))', '(packet.payload_id.source_block_number as int) < old(self).config.num_source_blocks as int',
               'packet.data@.len() == old(self).config.symbol_size as int', 'packet.payload_id.encoding_symbol_id < 16777216',
               'old(self).block_decoders@[packet.payload_id.source_block_number as int].repair_packets@.len() < 16777216']
    STATE_ENS = ['dec_step_ok(*old(self), *final(self), packet)']
    COMMON_SUBST = [('.decode(iter::once(packet));', '.decode_once(packet);', 'D5c-once')]
    RES_RESUBST = [(r'for block in self\.blocks\.iter\(\) \{', 'for block in verif_it: self.blocks.iter() {', 'name-iterator'),
                   (r'result\.extend\(block\);', 'verif_extend_from_ref(&mut result, block);', 'S2-extend-ref')]
    RES_LOOPS = {0: {'spec': 'invariant [?packet: dec_step_ok(*old(self), *self, packet), ?] blocks_all_some(self.blocks@, verif_it.index@ as nat), verif_it.index@ <= self.blocks@.len(),',
                     'body_top': 'proof { if block.is_none() { lemma_not_all_some(self.blocks@, self.blocks@.len(), verif_it.index@); } }'},
                 1: {'spec': 'invariant [?packet: dec_step_ok(*old(self), *self, packet), ?] result@ == blocks_concat(self.blocks@, verif_k as nat), blocks_all_some(self.blocks@, self.blocks@.len()),',
                     'body_top': 'proof { lemma_all_some_at(self.blocks@, self.blocks@.len(), verif_k as int); }'}}
    u.fn('src/decoder.rs', 'decode', impl='impl Decoder', ret='r',
         rules=['D2'], subst=COMMON_SUBST, resubst=RES_RESUBST,
         requires=PKT_REQ, ensures=STATE_ENS + ['match r { Some(v) => Some(v@), None => None } == result_spec(*final(self))'],
         opt_inserts=[('let mut result = vec![];', 'replace', 'let mut result: Vec<u8> = vec![];')],
         loops=RES_LOOPS)
    u.fn('src/decoder.rs', 'add_new_packet', impl='impl Decoder', ret='r',
         subst=COMMON_SUBST, requires=PKT_REQ, ensures=STATE_ENS)
    u.fn('src/decoder.rs', 'get_result', impl='impl Decoder', ret='r',
         rules=['D2'], resubst=RES_RESUBST,
         ensures=['match r { Some(v) => Some(v@), None => None } == result_spec(*self)'],
         opt_inserts=[('let mut result = vec![];', 'replace', 'let mut result: Vec<u8> = vec![];')],
         loops=RES_LOOPS)
    u.raw('}')
    u.raw("""
pub proof fn lemma_mul_div(k: int, t: int)
    requires 0 <= k <= 56403, 1 <= t <= 65535,
    ensures (k * t) / t == k, (k * t) == ((k * t) / t) * t, 0 <= k * t <= 56403 * 65535,
{
    lemma_div_multiples_vanish(k, t);
    lemma_mul_is_commutative(k, t);
    assert(0 <= k * t <= 56403 * 65535) by (nonlinear_arith) requires 0 <= k <= 56403, 1 <= t <= 65535;
}
""", label='arithmetic lemma')
    u.raw('} // verus!')
    return u


def _unused(u):
    u.trust(__import__('props').SOLVER_ASSUMED if False else 'pi_solver::fused_inverse_mul_symbols{,_no_hdpc}: external; assumed deterministic and correct (Some(C) iff the system has the unique solution C)')
    return u
