"""V-SPARSE (C16, partial): the right-aligned dense tail of SparseBinaryMatrix: bit addressing helpers and
hint_column_dense_and_frozen (re-spacing of the dense words when a new word per row is needed)."""
from vunit import VUnit
import common
import v_dense

SPEC = r'''
verus! {
// number of u64 words per row for n dense columns; unused bits on the LEFT of each row (values are right-aligned)
pub open spec fn rww(n: int) -> int { ceil_div(n, 64) }
pub open spec fn pad(n: int) -> int { (64 - n % 64) % 64 }
// dense-tail cell: dense column c (0 = leftmost dense column) of physical row r
pub open spec fn dcell(m: SparseBinaryMatrix, r: int, c: int) -> bool {
    bit_of(m.dense_elements@[r * rww(m.num_dense_columns as int) + (pad(m.num_dense_columns as int) + c) / 64], (pad(m.num_dense_columns as int) + c) % 64)
}
pub open spec fn sm_wf(m: SparseBinaryMatrix) -> bool {
    &&& 1 <= m.num_dense_columns && m.num_dense_columns <= m.width && m.width < 65536 && m.height < 16777216
    &&& m.dense_elements@.len() == m.height as int * rww(m.num_dense_columns as int)
    &&& m.logical_col_to_physical@.len() == m.width as int
    &&& m.sparse_elements@.len() == m.height as int
    &&& (m.sparse_columnar_values.is_some() ==> ilm_bound(m.sparse_columnar_values.unwrap()) == m.height as int)
    // the unused bits left of the first dense column are zero in every row
    &&& forall |r: int, b: int| 0 <= r < m.height && 0 <= b < pad(m.num_dense_columns as int) ==> !#[trigger] bit_of(m.dense_elements@[r * rww(m.num_dense_columns as int)], b)
}
// the dense words after a new (zero) word has been inserted at the LEFT of every row: h rows of w words -> h rows of w + 1 words
pub open spec fn respaced(old_words: Seq<u64>, w: int, p: int) -> u64 {
    if p % (w + 1) == 0 { 0u64 } else { old_words[(p / (w + 1)) * w + p % (w + 1) - 1] }
}
pub proof fn lemma_respaced_cells(o: SparseBinaryMatrix, mid: Seq<u64>, h: int, n0: int)
    requires sm_wf(o), h == o.height as int, n0 == o.num_dense_columns as int,
             (n0 % 64 != 0 ==> mid == o.dense_elements@),
             (n0 % 64 == 0 ==> mid.len() == h * (rww(n0) + 1) && forall |p: int| 0 <= p < h * (rww(n0) + 1) ==> #[trigger] mid[p] == respaced(o.dense_elements@, rww(n0), p)),
    ensures
        mid.len() == h * rww(n0 + 1),
        // old dense column c now sits at dense column c + 1 of the grown tail
        forall |r: int, c: int| 0 <= r < h && 0 <= c < n0 ==>
            #[trigger] bit_of(mid[r * rww(n0 + 1) + (pad(n0 + 1) + c + 1) / 64], (pad(n0 + 1) + c + 1) % 64) == dcell(o, r, c),
        // and the bits left of the new first column are zero, the new column's own bit included
        forall |r: int, b: int| 0 <= r < h && 0 <= b <= pad(n0 + 1) ==> !#[trigger] bit_of(mid[r * rww(n0 + 1)], b),
{
    lemma_pad(n0); lemma_pad(n0 + 1);
    let w0 = rww(n0); let wn = rww(n0 + 1);
    if n0 % 64 != 0 {
        assert forall |r: int, c: int| 0 <= r < h && 0 <= c < n0 implies
            #[trigger] bit_of(mid[r * wn + (pad(n0 + 1) + c + 1) / 64], (pad(n0 + 1) + c + 1) % 64) == dcell(o, r, c) by { }
    } else {
        assert forall |r: int, c: int| 0 <= r < h && 0 <= c < n0 implies
            #[trigger] bit_of(mid[r * wn + (pad(n0 + 1) + c + 1) / 64], (pad(n0 + 1) + c + 1) % 64) == dcell(o, r, c) by {
            // pad(n0+1) = 63: bit 64 + c -> word 1 + c/64, bit c%64 ; old: pad = 0: word c/64, bit c%64
            lemma_fundamental_div_mod(c, 64); lemma_div_pos_is_pos(c, 64);
            lemma_fundamental_div_mod_converse(64 + c, 64, 1 + c / 64, c % 64);
            assert(c / 64 < w0) by { if c / 64 >= w0 { assert(64 * (c / 64) >= 64 * w0) by (nonlinear_arith) requires c / 64 >= w0; } }
            let p = r * wn + 1 + c / 64;
            assert(r * wn + wn <= h * wn) by (nonlinear_arith) requires r + 1 <= h, wn >= 0;
            assert(r * wn >= 0) by (nonlinear_arith) requires r >= 0, wn >= 0;
            lemma_fundamental_div_mod_converse(p, wn, r, 1 + c / 64);
            assert(mid[p] == respaced(o.dense_elements@, w0, p));
        }
        assert forall |r: int, b: int| 0 <= r < h && 0 <= b <= pad(n0 + 1) implies !#[trigger] bit_of(mid[r * wn], b) by {
            assert(r * wn + wn <= h * wn) by (nonlinear_arith) requires r + 1 <= h, wn >= 0;
            assert(r * wn >= 0) by (nonlinear_arith) requires r >= 0, wn >= 0;
            lemma_fundamental_div_mod_converse(r * wn, wn, r, 0);
            assert(mid[r * wn] == respaced(o.dense_elements@, w0, r * wn));
            lemma_zero_bit(b as u64);
        }
    }
}
pub proof fn lemma_pad(n: int)
    requires n >= 1,
    ensures 0 <= pad(n) < 64, pad(n) + n == 64 * rww(n), rww(n) >= 1,
            n % 64 != 0 ==> rww(n + 1) == rww(n) && pad(n + 1) == pad(n) - 1 && pad(n) >= 1,
            n % 64 == 0 ==> rww(n + 1) == rww(n) + 1 && pad(n) == 0 && pad(n + 1) == 63,
{
    lemma_ceil_div_exact(n, 64); lemma_ceil_div_exact(n + 1, 64);
    lemma_fundamental_div_mod(n, 64); lemma_fundamental_div_mod(n + 1, 64);
    lemma_mod_bound(n, 64); lemma_mod_bound(n + 1, 64);
    let q = n / 64; let r = n % 64;
    if r == 0 {
        lemma_fundamental_div_mod_converse(n + 1, 64, q, 1);
        lemma_small_mod(0, 64); lemma_small_mod(63, 64);
        assert((64 - 0) % 64 == 0int) by { lemma_mod_self_0(64); }
    } else {
        lemma_small_mod((64 - r) as nat, 64);
        if r == 63 {
            lemma_fundamental_div_mod_converse(n + 1, 64, q + 1, 0);
            assert((64 - 0) % 64 == 0int) by { lemma_mod_self_0(64); }
        } else {
            lemma_fundamental_div_mod_converse(n + 1, 64, q, r + 1);
            lemma_small_mod((64 - r - 1) as nat, 64);
        }
    }
}
} // verus!
'''


BIT_LEMMAS = r'''verus! {
pub proof fn lemma_set_bit(w: u64, b: u64, c: u64)
    requires b < 64, c < 64,
    ensures bit_of(w | (1u64 << b), c as int) == (if c == b { true } else { bit_of(w, c as int) }),
            bit_of(w & !(1u64 << b), c as int) == (if c == b { false } else { bit_of(w, c as int) }),
{
    assert((w | (1u64 << b)) & (1u64 << c) != 0 <==> (c == b || w & (1u64 << c) != 0)) by (bit_vector) requires b < 64, c < 64;
    assert((w & !(1u64 << b)) & (1u64 << c) != 0 <==> (c != b && w & (1u64 << c) != 0)) by (bit_vector) requires b < 64, c < 64;
}
pub proof fn lemma_zero_bit(c: u64)
    requires c < 64,
    ensures !bit_of(0u64, c as int),
{ assert(0u64 & (1u64 << c) == 0) by (bit_vector); }
}'''


def helpers(u):
    """bit-addressing helpers of the dense tail under contract (shared with V-SPMAT); emitted inside `impl SparseBinaryMatrix {`"""
    IMPL = 'impl SparseBinaryMatrix'
    u.fn('src/sparse_matrix.rs', 'row_word_width', impl=IMPL, ret='r', requires=['self.num_dense_columns < 65536'], ensures=['r as int == rww(self.num_dense_columns as int)'])
    u.fn('src/sparse_matrix.rs', 'left_padding_bits', impl=IMPL, ret='r', requires=['self.num_dense_columns < 65536'], ensures=['r as int == pad(self.num_dense_columns as int)', 'r < 64'])
    u.fn('src/sparse_matrix.rs', 'word_offset', impl=IMPL, ret='r', requires=['self.num_dense_columns < 65536', 'bit < 65536'], ensures=['r as int == (pad(self.num_dense_columns as int) + bit as int) / 64'])
    u.fn('src/sparse_matrix.rs', 'bit_position', impl=IMPL, ret='r',
         requires=['1 <= self.num_dense_columns', 'self.num_dense_columns < 65536', 'col < 65536', 'row < 16777216'],
         ensures=['r.0 as int == row as int * rww(self.num_dense_columns as int) + (pad(self.num_dense_columns as int) + col as int) / 64',
                  'r.1 as int == (pad(self.num_dense_columns as int) + col as int) % 64', 'r.1 < 64'],
         prepend='proof { lemma_pad(self.num_dense_columns as int); lemma_ceil_div_exact(self.num_dense_columns as int, 64);'
                 ' assert(rww(self.num_dense_columns as int) <= 1024) by { lemma_div_is_ordered(self.num_dense_columns as int + 63, 65535int + 63, 64); }'
                 ' assert(0 <= row as int * rww(self.num_dense_columns as int) <= 16777216 * 1024) by (nonlinear_arith) requires 0 <= row as int <= 16777216, 0 <= rww(self.num_dense_columns as int) <= 1024;'
                 ' lemma_div_pos_is_pos(pad(self.num_dense_columns as int) + col as int, 64); lemma_div_is_ordered_by_denominator(pad(self.num_dense_columns as int) + col as int, 1, 64); lemma_div_basics(pad(self.num_dense_columns as int) + col as int); }')
    u.fn('src/sparse_matrix.rs', 'select_mask', impl=IMPL, ret='r', requires=['bit < 64'], ensures=['r == 1u64 << (bit as u64)'])
    u.fn('src/sparse_matrix.rs', 'clear_bit', impl=IMPL, ret='r', requires=['bit < 64'], ensures=['*final(word) == *old(word) & !(1u64 << (bit as u64))'])
    u.fn('src/sparse_matrix.rs', 'set_bit', impl=IMPL, ret='r', requires=['bit < 64'], ensures=['*final(word) == *old(word) | (1u64 << (bit as u64))'])


def build():
    u = VUnit('V-SPARSE')
    u.raw(common.PRELUDE)
    u.raw(common.ARITH)
    u.raw('verus! {')
    u.struct('src/octet.rs', 'Octet', prefix='#[derive(PartialEq, Eq, Structural)]\n')
    u.raw('''impl Octet {
    pub fn zero() -> (r: Octet) ensures r.value == 0 { Octet { value: 0 } }
    pub fn one() -> (r: Octet) ensures r.value == 1 { Octet { value: 1 } }
}
#[verifier::external_body] pub struct SparseBinaryVec { _p: () }
#[verifier::external_body] pub struct ImmutableListMap { _p: () }
pub uninterp spec fn ilm_bound(m: ImmutableListMap) -> int;    // every row number stored in the column index is below this
impl ImmutableListMap {
    #[verifier::external_body]
    pub fn get(&self, i: u16) -> (r: &[u32])
        ensures forall |k: int| 0 <= k < r@.len() ==> (#[trigger] r@[k] as int) < ilm_bound(*self),
    { unimplemented!() }
}
#[verifier::external_body]
fn verif_extend_u64(v: &mut Vec<u64>, b: Vec<u64>) ensures final(v)@ == old(v)@ + b@ { unimplemented!() }
impl SparseBinaryVec {
    #[verifier::external_body]
    pub fn remove(&mut self, i: usize) -> (r: Option<Octet>) { unimplemented!() }
}
''', label='opaque sparse row / column index types')
    u.struct('src/sparse_matrix.rs', 'SparseBinaryMatrix', subst=[('    #[cfg(debug_assertions)]\n    debug_indexed_column_valid: Vec<bool>,\n', '')])
    u.raw('} // verus!')
    u.raw(v_dense.SPEC.split('// the abstract matrix: cell (i, j) of a dense matrix')[0] + '\n} // verus!\n')
    u.raw(BIT_LEMMAS, label='bit lemmas')
    u.raw(SPEC)
    u.trust('SparseBinaryVec / ImmutableListMap are opaque here (remove and get external, no contract): the sparse rows and the column index are NOT under contract')
    u.raw('verus! {')
    u.raw('impl SparseBinaryMatrix {')
    IMPL = 'impl SparseBinaryMatrix'
    helpers(u)
    N0 = 'old(self).num_dense_columns as int'
    u.fn('src/sparse_matrix.rs', 'hint_column_dense_and_frozen', impl='impl BinaryMatrix for SparseBinaryMatrix', ret='r', rules=['A1'],
         requires=['sm_wf(*old(self))', 'old(self).height >= 1', 'old(self).num_dense_columns < old(self).width', 'i as int == old(self).width - old(self).num_dense_columns - 1',
                   '!old(self).column_index_disabled', 'old(self).sparse_columnar_values.is_some()'],
         ensures=['sm_wf(*final(self))', 'final(self).num_dense_columns == old(self).num_dense_columns + 1', 'final(self).height == old(self).height && final(self).width == old(self).width',
                  # every column that was already frozen keeps its contents, one position further right in the (grown) dense tail
                  'forall |r: int, c: int| 0 <= r < old(self).height && 0 <= c < %s ==> #[trigger] dcell(*final(self), r, c + 1) == dcell(*old(self), r, c)' % N0],
         subst=[('self.dense_elements.extend(vec![0; self.height]);', 'verif_extend_u64(&mut self.dense_elements, vec![0u64; self.height]);', 'S2-extend-vec')],
         resubst=[(r'for maybe_present_in_row in self\s*\.sparse_columnar_values\s*\.as_ref\(\)\s*\.unwrap\(\)\s*\.get\(physical_i as u16\)\s*\{',
                   'let verif_rows = self.sparse_columnar_values.as_ref().unwrap().get(physical_i as u16);\n for maybe_present_in_row in verif_it: verif_rows.iter() {', 'D7-let-bind-and-name-iterator')],
         inserts=[('self.num_dense_columns += 1;', 'before', 'let ghost n0 = self.num_dense_columns as int; let ghost w0 = rww(n0); let ghost h = self.height as int; let ghost old_words = self.dense_elements@;\nproof { lemma_pad(n0); lemma_pad(n0 + 1); }'),
                  ('let (last_word, _) = self.bit_position', 'after',
                   'proof { lemma_pad(n0 + 1); let wn = rww(n0 + 1); assert((pad(n0 + 1) + n0) / 64 == wn - 1) by { lemma_fundamental_div_mod_converse(pad(n0 + 1) + n0, 64, wn - 1, 63); }'
                   ' assert((h - 1) * wn + wn == h * wn) by (nonlinear_arith); assert(h * w0 >= 0) by (nonlinear_arith) requires h >= 0, w0 >= 0;'
                   ' assert(h * (w0 + 1) == h * w0 + h) by (nonlinear_arith); }'),
                  ('let mut src = self.dense_elements.len();', 'replace', 'let mut src: usize = self.dense_elements.len(); let ghost mut gr: int = h; let ghost mut gk: int = 0;'),
                  ('let mut dest = self.dense_elements.len();', 'replace', 'let mut dest: usize = self.dense_elements.len();'),
                  ('let physical_i = self.logical_col_to_physical[i] as usize;', 'before',
                   'let ghost mid = self.dense_elements@; let ghost wn = rww(n0 + 1);\n'
                   'proof { lemma_respaced_cells(*old(self), mid, h, n0); }'),
                  ],
         loops={0: {'spec': ('invariant self.height == old(self).height, self.width == old(self).width, self.num_dense_columns as int == n0 + 1, n0 >= 1, n0 % 64 == 0, h == self.height as int, h >= 1, w0 == rww(n0), w0 >= 1, w0 <= 1024, h < 16777216,'
                             ' rww(n0 + 1) == w0 + 1, old_words == old(self).dense_elements@, old_words.len() == h * w0, self.dense_elements@.len() == h * (w0 + 1), n0 + 1 < 65536,'
                             ' 0 <= gr <= h, 0 <= gk < w0, src as int == gr * w0 - gk, dest as int == gr * (w0 + 1) - gk, (gr == 0 ==> gk == 0),'
                             ' forall |p: int| 0 <= p < src as int ==> #[trigger] self.dense_elements@[p] == old_words[p],'
                             ' forall |p: int| dest as int <= p < h * (w0 + 1) ==> #[trigger] self.dense_elements@[p] == respaced(old_words, w0, p),'
                             ' decreases src,'),
                    'body_top': ('proof { assert(gr >= 1) by { if gr == 0 { assert(gr * w0 == 0) by (nonlinear_arith) requires gr == 0; } }'
                                 ' assert(gr * w0 <= h * w0) by (nonlinear_arith) requires gr <= h, w0 >= 0; assert(gr * (w0 + 1) <= h * (w0 + 1)) by (nonlinear_arith) requires gr <= h, w0 >= 0;'
                                 ' assert((gr - 1) * w0 == gr * w0 - w0) by (nonlinear_arith); assert((gr - 1) * (w0 + 1) == gr * (w0 + 1) - w0 - 1) by (nonlinear_arith);'
                                 ' assert((gr - 1) * w0 >= 0 && (gr - 1) * (w0 + 1) >= 0) by (nonlinear_arith) requires gr >= 1, w0 >= 0; }'),
                    'body_bottom': ('proof { if gk + 1 == w0 { gr = gr - 1; gk = 0; } else { gk = gk + 1; } }'),
                    'after': 'proof { if gr >= 1 { assert(gr * w0 >= w0) by (nonlinear_arith) requires gr >= 1, w0 >= 0; } assert(gr == 0); assert(gr * (w0 + 1) == 0) by (nonlinear_arith) requires gr == 0; }'},
                1: {'spec': ('invariant self.height == old(self).height, self.width == old(self).width, self.num_dense_columns as int == n0 + 1, n0 >= 1, n0 + 1 < 65536, h == self.height as int, h >= 1, h < 16777216,'
                             ' wn == rww(n0 + 1), wn >= 1, self.dense_elements@.len() == h * wn, mid.len() == h * wn, self.sparse_elements@.len() == h,'
                             ' self.logical_col_to_physical@ == old(self).logical_col_to_physical@, self.sparse_columnar_values == old(self).sparse_columnar_values, self.column_index_disabled == old(self).column_index_disabled,'
                             ' forall |k: int| 0 <= k < verif_rows@.len() ==> (#[trigger] verif_rows@[k] as int) < h,'
                             ' forall |p: int, b: int| 0 <= p < h * wn && 0 <= b < 64 && !(p % wn == 0 && b == pad(n0 + 1)) ==> #[trigger] bit_of(self.dense_elements@[p], b) == bit_of(mid[p], b),'),
                    'body_top': 'let ghost pre_words = self.dense_elements@;',
                    'body_bottom': ('proof { let pr = *maybe_present_in_row as int; lemma_pad(n0 + 1); let wp = pr * wn;'
                                    ' assert(pr * wn + wn <= h * wn) by (nonlinear_arith) requires pr + 1 <= h, wn >= 0; assert(pr * wn >= 0) by (nonlinear_arith) requires pr >= 0, wn >= 0;'
                                    ' lemma_fundamental_div_mod_converse(wp, wn, pr, 0); lemma_small_mod(pad(n0 + 1) as nat, 64); lemma_basic_div(pad(n0 + 1), 64);'
                                    ' assert forall |p: int, b: int| 0 <= p < h * wn && 0 <= b < 64 && !(p % wn == 0 && b == pad(n0 + 1)) implies #[trigger] bit_of(self.dense_elements@[p], b) == bit_of(mid[p], b) by {'
                                    '   if p == wp { lemma_set_bit(pre_words[wp], pad(n0 + 1) as u64, b as u64); } } }')}},
         append="""proof {
    let o = *old(self); let n = *self; lemma_pad(n0 + 1);
    assert forall |r: int, c: int| 0 <= r < o.height && 0 <= c < n0 implies #[trigger] dcell(n, r, c + 1) == dcell(o, r, c) by {
        let p = r * wn + (pad(n0 + 1) + c + 1) / 64; let b = (pad(n0 + 1) + c + 1) % 64;
        assert(bit_of(mid[p], b) == dcell(o, r, c));
        assert(r * wn + wn <= h * wn) by (nonlinear_arith) requires r + 1 <= h, wn >= 0; assert(r * wn >= 0) by (nonlinear_arith) requires r >= 0, wn >= 0;
        lemma_div_pos_is_pos(pad(n0 + 1) + c + 1, 64);
        assert((pad(n0 + 1) + c + 1) / 64 < wn) by { lemma_fundamental_div_mod(pad(n0 + 1) + c + 1, 64); if (pad(n0 + 1) + c + 1) / 64 >= wn { assert(64 * ((pad(n0 + 1) + c + 1) / 64) >= 64 * wn) by (nonlinear_arith) requires (pad(n0 + 1) + c + 1) / 64 >= wn; } }
        if p % wn == 0 && b == pad(n0 + 1) {
            lemma_fundamental_div_mod_converse(p, wn, r, (pad(n0 + 1) + c + 1) / 64);
            lemma_fundamental_div_mod(pad(n0 + 1) + c + 1, 64);
        }
    }
    assert forall |r: int, b: int| 0 <= r < n.height && 0 <= b < pad(n0 + 1) implies !#[trigger] bit_of(n.dense_elements@[r * wn], b) by {
        assert(r * wn + wn <= h * wn) by (nonlinear_arith) requires r + 1 <= h, wn >= 0; assert(r * wn >= 0) by (nonlinear_arith) requires r >= 0, wn >= 0;
        assert(!bit_of(mid[r * wn], b));
    }
}""",
         hint_inserts=[('if value == Octet::zero() {', 'before',
                       'proof { let pr = physical_row as int; lemma_pad(n0 + 1); lemma_basic_div(pad(n0 + 1), 64); lemma_small_mod(pad(n0 + 1) as nat, 64);'
                       ' assert(pr * wn + wn <= h * wn) by (nonlinear_arith) requires pr + 1 <= h, wn >= 0; assert(pr * wn >= 0) by (nonlinear_arith) requires pr >= 0, wn >= 0; }'),
                      ('self.dense_elements[dest] = self.dense_elements[src];', 'before',
                       'proof { assert(src as int == gr * w0 - gk - 1 && dest as int == gr * (w0 + 1) - gk - 1); assert(dest as int - src as int == gr) by (nonlinear_arith) requires src as int == gr * w0 - gk - 1, dest as int == gr * (w0 + 1) - gk - 1; }'),
                      ('if dest % self.row_word_width() ==', 'before',
                       'proof { let d = dest as int; let q = gr - 1; let wn1 = w0 + 1;'
                       ' lemma_fundamental_div_mod_converse(d, wn1, q, w0 - gk);'
                       ' assert(self.dense_elements@[d] == respaced(old_words, w0, d)) by { assert(q * w0 + (w0 - gk) - 1 == src as int); }'
                       ' if gk + 1 == w0 { lemma_fundamental_div_mod_converse(d - 1, wn1, q, 0); } }')])
    u.raw('}')
    u.raw('} // verus!')
    return u
