"""V-AMAT (C04, C02): constraint_matrix::generate_constraint_matrix{,_no_hdpc} build the binary part of the RFC 6330 5.3.3.3 matrix A for ANY
matrix type that honours the two-method BinaryMatrix contract (new: all zero; set: exactly that cell), for all K and all ESI lists:
  rows 0..S-1          G_LDPC,1 | I_S | G_LDPC,2   (the three loops of 5.3.3.3, transcribed into ldpc1 / a_static below)
  rows S..S+H-1        zero in the binary matrix (the HDPC rows live in the separate dense octet matrix)         [standard variant only]
  row  off+r           ones exactly at the 5.3.5.3 index walk of Tuple[K', ESI_r]   (enc_indices inlined with its `matrix.set` closure, rule I1)
The contract is in set semantics (a cell is 1 iff some step of the RFC procedure touches it); see `not_decided` for distinctness."""
from vunit import VUnit
import common
import v_slab, v_encinto

SPEC = r'''
verus! {
pub uninterp spec fn kprime_of(k: int) -> int;
pub uninterp spec fn s_of(k: int) -> int;
pub uninterp spec fn h_of(k: int) -> int;
pub uninterp spec fn j_of(k: int) -> int;
pub uninterp spec fn tuple_of(isi: int, w: int, j: int, p1: int) -> (u32, u32, u32, u32, u32, u32);   // Tuple[K', X]
pub open spec fn tuple_ok(t: (u32, u32, u32, u32, u32, u32), w: int, p1: int) -> bool {
    1 <= t.0 && 1 <= t.1 && (t.1 as int) < w && (t.2 as int) < w && (t.3 == 2 || t.3 == 3) && 1 <= t.4 && (t.4 as int) < p1 && (t.5 as int) < p1
}
// per-row facts of the systematic-index table (K-TAB / V-TAB) used here
pub open spec fn amat_consts(k: int) -> bool {
    let kp = kprime_of(k); let s = s_of(k); let h = h_of(k); let w = w_of(k); let p = p_of(k); let p1 = p1_of(k);
    &&& k <= kp <= 56403 && 2 <= s && s < w && 17 <= w && 1 <= h && 2 <= p && p <= p1 && p1 <= p + 13 && 11 <= p1 && 0 <= j_of(k) <= 1000
    &&& kp + s + h == w + p && w + p < 65536
    // the look-ups keyed by K' hit the same table row as those keyed by K
    &&& kprime_of(kp) == kp && w_of(kp) == w && p_of(kp) == p && p1_of(kp) == p1 && j_of(kp) == j_of(k)
}
// ---- the two-method matrix interface (its contract is what V-DENSE proves for DenseBinaryMatrix::new / set)
pub trait BinaryMatrix: Sized {
    spec fn hh(&self) -> int;
    spec fn ww(&self) -> int;
    spec fn cell(&self, i: int, j: int) -> bool;
    fn new(height: usize, width: usize, trailing_dense_column_hint: usize) -> (r: Self)
        requires height <= 0xff_ffff, width <= 0xffff,
        ensures r.hh() == height, r.ww() == width, forall |i: int, j: int| 0 <= i < height && 0 <= j < width ==> !#[trigger] r.cell(i, j);
    fn set(&mut self, i: usize, j: usize, value: Octet)
        requires (i as int) < old(self).hh(), (j as int) < old(self).ww(),
        ensures final(self).hh() == old(self).hh(), final(self).ww() == old(self).ww(),
                forall |a: int, b: int| 0 <= a < old(self).hh() && 0 <= b < old(self).ww() ==>
                    #[trigger] final(self).cell(a, b) == (if a == i as int && b == j as int { value.value != 0 } else { old(self).cell(a, b) });
}
// ---- RFC 6330 5.3.3.3, first S rows.  "For i = 0, ..., B-1: a = 1 + floor(i/S); b = i % S; D[b] += C[i]; b = (b + a) % S; D[b] += C[i];
// b = (b + a) % S; D[b] += C[i]" ; "For i = 0, ..., S-1: a = i % P; b = (i+1) % P; D[i] += C[W+a] + C[W+b]" ; I_S at columns B..B+S-1
pub open spec fn ldpc1(r: int, c: int, s: int) -> bool {
    let a = 1 + c / s; let b0 = c % s; let b1 = (b0 + a) % s; let b2 = (b1 + a) % s;
    r == b0 || r == b1 || r == b2
}
// n1 columns of G_LDPC,1, n2 rows of I_S and n3 rows of G_LDPC,2 written so far
pub open spec fn a_static(r: int, c: int, s: int, b: int, w: int, p: int, n1: int, n2: int, n3: int) -> bool {
    ||| (0 <= r < s && 0 <= c < n1 && ldpc1(r, c, s))
    ||| (0 <= r < n2 && c == r + b)
    ||| (0 <= r < n3 && (c == r % p + w || c == (r + 1) % p + w))
}
pub open spec fn seq_has(idx: Seq<int>, c: int) -> bool { exists |q: int| 0 <= q < idx.len() && idx[q] == c }
pub proof fn lemma_push_has(oi: Seq<int>, x: int, c: int)
    ensures seq_has(oi.push(x), c) == (seq_has(oi, c) || c == x),
{
    let ni = oi.push(x);
    if seq_has(oi, c) { let q = choose |q: int| 0 <= q < oi.len() && oi[q] == c; assert(ni[q] == c); }
    if c == x { assert(ni[oi.len() as int] == c); }
    if seq_has(ni, c) { let q = choose |q: int| 0 <= q < ni.len() && ni[q] == c; if q < oi.len() { assert(oi[q] == c); } }
}
pub proof fn lemma_single_has(x: int, c: int)
    ensures seq_has(seq![x], c) == (c == x),
{
    if c == x { assert(seq![x][0] == c); }
}
// G_ENC row: ones exactly at the index walk of the tuple (LT part then PI part, RFC 6330 5.3.5.3)
pub open spec fn enc_row_ok<T: BinaryMatrix>(m: T, r: int, t: (u32, u32, u32, u32, u32, u32), w: int, p: int, p1: int, l: int) -> bool {
    exists |idx: Seq<int>, ks: Seq<int>| #[trigger] enc_idx_ok(idx, ks, t, w, p, p1) && forall |c: int| 0 <= c < l ==> m.cell(r, c) == seq_has(idx, c)
}
pub proof fn lemma_row_frame<T: BinaryMatrix>(m0: T, m: T, r: int, t: (u32, u32, u32, u32, u32, u32), w: int, p: int, p1: int, l: int)
    requires enc_row_ok(m0, r, t, w, p, p1, l), forall |c: int| 0 <= c < l ==> m.cell(r, c) == m0.cell(r, c),
    ensures enc_row_ok(m, r, t, w, p, p1, l),
{
    let (idx, ks) = choose |idx: Seq<int>, ks: Seq<int>| #[trigger] enc_idx_ok(idx, ks, t, w, p, p1) && forall |c: int| 0 <= c < l ==> m0.cell(r, c) == seq_has(idx, c);
    assert(enc_idx_ok(idx, ks, t, w, p, p1) && forall |c: int| 0 <= c < l ==> m.cell(r, c) == seq_has(idx, c));
}
// the whole binary matrix: `off` = first G_ENC row (S + H, or S without the HDPC gap)
pub open spec fn amat_ok<T: BinaryMatrix>(m: T, k: int, esis: Seq<u32>, off: int) -> bool {
    let s = s_of(k); let w = w_of(k); let p = p_of(k); let l = w + p; let kp = kprime_of(k);
    &&& m.hh() == off + esis.len() && m.ww() == l
    &&& forall |r: int, c: int| 0 <= r < off && 0 <= c < l ==> #[trigger] m.cell(r, c) == a_static(r, c, s, w - s, w, p, w - s, s, s)
    &&& forall |r: int| 0 <= r < esis.len() ==> #[trigger] enc_row_ok(m, off + r, tuple_of(esis[r] as int, w, j_of(k), p1_of(k)), w, p, p1_of(k), l)
}
} // verus!
'''


def gen(u, fname, off_expr, off_spec, with_h):
    K = 'source_block_symbols as int'
    N = 'encoded_symbol_indices@.len()'
    DIMS = ('amat_consts(%s), source_block_symbols <= 56403, Kprime as int == kprime_of(%s), S as int == s_of(%s), W as int == w_of(%s), P as int == p_of(%s), L as int == W as int + P as int, B as int == W as int - S as int,'
            ' %s matrix.hh() == (%s) + %s, matrix.ww() == L as int, (%s) + %s <= 0xff_ffff,' % (K, K, K, K, K, ('H as int == h_of(%s),' % K) if with_h else '', off_spec, N, off_spec, N))
    ST = lambda n1, n2, n3: (' forall |r: int, c: int| 0 <= r < matrix.hh() && 0 <= c < L as int ==> #[trigger] matrix.cell(r, c) == a_static(r, c, S as int, B as int, W as int, P as int, %s, %s, %s),' % (n1, n2, n3))
    CUR = 'row as int + (%s)' % off_spec
    TUP = 'tuple_of(encoded_symbol_indices@[%s] as int, W as int, j_of(%s), p1 as int)'
    ROWS = (' forall |r: int, c: int| 0 <= r < (%s) && 0 <= c < L as int ==> #[trigger] matrix.cell(r, c) == a_static(r, c, S as int, B as int, W as int, P as int, B as int, S as int, S as int),' % off_spec)
    ENC_COMMON = (DIMS + ' lt_symbols as int == W as int, pi_symbols as int == P as int, p1 as int == p1_of(%s), sys_index as int == j_of(%s), (row as int) < %s,' % (K, K, N))
    # inside the inlined walk (callee locals w, p, p1, a, b, ...): the current row holds exactly idx, every other row is as at row start
    WALK_COMMON = (ENC_COMMON + ' w == lt_symbols, p == pi_symbols, 1 <= p && p <= p1, (w as int) + (p1 as int) < 0x8000_0000, w >= 2,'
                   ' 1 <= a && a < w, 1 <= a1 && a1 < p1, 1 <= d, d1 == 2 || d1 == 3, b0 < w as int, b10 < p1 as int, 0 <= b0, 0 <= b10,'
                   ' forall |r: int, c: int| 0 <= r < matrix.hh() && r != %s && 0 <= c < L as int ==> #[trigger] matrix.cell(r, c) == m0.cell(r, c),' % CUR)
    ST_ROW = 'forall |c: int| 0 <= c < L as int ==> #[trigger] matrix.cell(%s, c) == seq_has(idx, c)' % CUR
    PUSH = lambda x: ('assert forall |c: int| 0 <= c < L as int implies #[trigger] matrix.cell(%s, c) == seq_has(idx, c) by { lemma_push_has(oi, %s, c); }' % (CUR, x))
    walk = v_encinto.walk_loops(WALK_COMMON, ST_ROW, ST_ROW, PUSH)
    walk[0]['before'] = ('let ghost mut idx: Seq<int> = seq![b0]; let ghost mut ks: Seq<int> = Seq::empty(); let ghost mut gk: int = 0;\n'
                         'proof { assert forall |c: int| 0 <= c < L as int implies #[trigger] matrix.cell(%s, c) == seq_has(idx, c) by { lemma_single_has(b0, c); } }' % CUR)
    walk[2]['after'] = ('proof { ' + v_encinto.final_steps('lt_symbols as int', 'pi_symbols as int', 'p1 as int') +
                        ' assert(enc_idx_ok(idx, ks, source_tuple, W as int, P as int, p1 as int));'
                        ' assert(forall |c: int| 0 <= c < L as int ==> matrix.cell(%s, c) == seq_has(idx, c));'
                        ' assert(enc_row_ok(matrix, %s, source_tuple, W as int, P as int, p1 as int, L as int)); }' % (CUR, CUR))
    loops = {
        0: {'spec': 'invariant ' + DIMS + ST('i as int', '0', '0'),
            'body_top': 'proof { lemma_mod_bound(i as int, S as int); lemma_mod_bound((i as int) % (S as int) + 1 + (i as int) / (S as int), S as int); lemma_mod_bound(((i as int) % (S as int) + 1 + (i as int) / (S as int)) % (S as int) + 1 + (i as int) / (S as int), S as int); }'},
        1: {'spec': 'invariant ' + DIMS + ST('B as int', 'i as int', '0')},
        2: {'spec': 'invariant ' + DIMS + ST('B as int', 'S as int', 'i as int'),
            'body_top': 'proof { lemma_mod_bound(i as int, P as int); lemma_mod_bound(i as int + 1, P as int); }'},
        3: {'spec': ('invariant ' + ENC_COMMON.replace(' (row as int) < %s,' % N, '') + ROWS +
                     ' forall |r: int| 0 <= r < row as int ==> #[trigger] enc_row_ok(matrix, (%s) + r, %s, W as int, P as int, p1 as int, L as int),'
                     ' forall |r: int, c: int| (%s) + row as int <= r < matrix.hh() && 0 <= c < L as int ==> !#[trigger] matrix.cell(r, c),'
                     % (off_spec, TUP % ('r', K), off_spec)),
            'body_top': 'let ghost m0 = matrix;',
            'body_bottom': ('proof { assert forall |r: int| 0 <= r < row as int + 1 implies #[trigger] enc_row_ok(matrix, (%s) + r, %s, W as int, P as int, p1 as int, L as int) by {'
                            ' if r < row as int { lemma_row_frame(m0, matrix, (%s) + r, %s, W as int, P as int, p1 as int, L as int); } } }'
                            % (off_spec, TUP % ('r', K), off_spec, TUP % ('r', K)))},
    }
    for kx, v in walk.items():
        loops[4 + kx] = v
    pre = ['source_block_symbols <= 56403', 'amat_consts(%s)' % K, 's_of(%s)%s + %s >= w_of(%s) + p_of(%s)' % (K, (' + h_of(%s)' % K) if with_h else '', N, K, K),
           's_of(%s)%s + %s <= 0xff_ffff' % (K, (' + h_of(%s)' % K) if with_h else '', N)]
    u.fn('src/constraint_matrix.rs', fname, ret='r', rules=['A1', 'D1'],
         inline=[('src/constraint_matrix.rs', 'enc_indices')],
         attrs='#[verifier::exec_allows_no_decreases_clause]', isolate_loops=True,
         requires=pre,
         ensures=['amat_ok(%s, %s, encoded_symbol_indices@, %s)' % ('r.0' if with_h else 'r', K, ('s_of(%s) + h_of(%s)' % (K, K)) if with_h else ('s_of(%s)' % K))],
         resubst=[(r'for _ in ', lambda m, names=iter(['verif_j', 'verif_s', 'verif_x2', 'verif_x3']): 'for %s in ' % next(names), 'name-loop-var')],
         subst=[('let (d, a, mut b, d1, a1, mut b1) = source_tuple;',
                 'let (d, a, mut b, d1, a1, mut b1) = source_tuple;\nlet ghost b0 = b as int; let ghost b10 = b1 as int; proof { lemma_orbit_zero(b0, a as int, w as int); lemma_orbit_zero(b10, a1 as int, p1 as int); }', 'ghost-entry-state')],
         loops=loops)


def build():
    u = VUnit('V-AMAT')
    u.raw(common.PRELUDE)
    u.raw(common.ARITH)
    u.raw('verus! {')
    u.struct('src/octet.rs', 'Octet')
    u.struct('src/symbol_slab.rs', 'SymbolSlab')
    u.struct('src/operation_vector.rs', 'SymbolOps', kind='enum')
    u.raw('} // verus!')
    u.raw(v_slab.SPEC)
    u.raw(v_encinto.SPEC)
    u.raw(SPEC)
    u.trust('BinaryMatrix trait reduced to the two methods used (new, set) with the cell-level contract that V-DENSE proves for DenseBinaryMatrix; for SparseBinaryMatrix that contract is assumed')
    u.trust('table look-ups and intermediate_tuple: contracts of V-TAB / K-TAB / V-RNG assumed (amat_consts lists the row facts used; look-ups keyed by K\' return the row of K)')
    u.trust('rule I1: enc_indices(args, |j| { matrix.set(..) }) beta-reduced with the callee body from this run\'s source; generate_hdpc_rows (GF(256) part of A) external, no contract')
    u.raw('verus! {')
    u.raw('''
impl Octet {
    #[verifier::external_body]
    pub fn one() -> (r: Octet) ensures r.value == 1 { unimplemented!() }
}
#[verifier::external_body]
pub struct DenseOctetMatrix { _p: () }
#[verifier::external_body]
fn generate_hdpc_rows(Kprime: usize, S: usize, H: usize) -> DenseOctetMatrix { unimplemented!() }
#[verifier::external_body]
pub fn intermediate_tuple(internal_symbol_id: u32, lt_symbols: u32, systematic_index: u32, p1: u32) -> (r: (u32, u32, u32, u32, u32, u32))
    requires lt_symbols >= 17, systematic_index <= 1000, p1 >= 11,     // exactly the precondition under which V-RNG proves it
    ensures r == tuple_of(internal_symbol_id as int, lt_symbols as int, systematic_index as int, p1 as int), tuple_ok(r, lt_symbols as int, p1 as int),
{ unimplemented!() }
''', label='callee contracts')
    for name, sp in [('extended_source_block_symbols', 'kprime_of'), ('num_ldpc_symbols', 's_of'), ('num_hdpc_symbols', 'h_of'), ('num_lt_symbols', 'w_of'),
                     ('num_pi_symbols', 'p_of'), ('systematic_index', 'j_of'), ('calculate_p1', 'p1_of')]:
        u.fn('src/systematic_constants.rs', name, ret='r', external_body=True,
             requires=['source_block_symbols <= 56403'],
             ensures=['r as int == %s(source_block_symbols as int)' % sp])
    u.fn('src/systematic_constants.rs', 'num_intermediate_symbols', ret='r', external_body=True,
         requires=['source_block_symbols <= 56403'],
         ensures=['r as int == w_of(source_block_symbols as int) + p_of(source_block_symbols as int)'])
    gen(u, 'generate_constraint_matrix_no_hdpc', 'S', 'S as int', False)
    gen(u, 'generate_constraint_matrix', 'S + H', 'S as int + H as int', True)
    u.raw('} // verus!')
    return u
