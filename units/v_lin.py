"""V-LIN (C09): scalar homogeneity.  Multiplying the data by a field constant c multiplies every intermediate symbol and every
encoding symbol by c: lemmas over the contracts of perform_op / gen_intermediate_symbols_with_plan / create_d (V-SLAB) and enc_into
(V-ENCINTO).  Needs the commutative/associative structure of the field product; established here for the shift-and-xor product
gf_mul of the contracts: two 16-bit facts by bit_vector (commutativity; a * xtime(b) == xtime(a * b)), the rest by algebra."""
from vunit import VUnit
import common
import v_slab, v_encinto


def XT(e):
    return '((%s << 1u8) ^ (((%s >> 7u8) | ((%s >> 7u8) << 2u8) | ((%s >> 7u8) << 3u8) | ((%s >> 7u8) << 4u8))))' % (e, e, e, e, e)


def MASK(b, k):
    t = '((%s >> %du8) & 1u8)' % (b, k)
    return '(' + ' | '.join('(%s << %du8)' % (t, i) if i else t for i in range(8)) + ')'


def PROD(chain, b):
    return '(' + ' ^ '.join('(%s & %s)' % (chain[k], MASK(b, k)) for k in range(8)) + ')'


def chainreq(v):
    return ['%s%d == %s' % (v, i, XT('%s%d' % (v, i - 1))) for i in range(1, 8)]


def bv_lemma(name, chains, extra_params, extra_reqs, goal):
    params, reqs = [], []
    for v in chains:
        params += ['%s%d: u8' % (v, i) for i in range(8)]
        reqs += chainreq(v)
    params += extra_params
    reqs += extra_reqs
    return '''proof fn %s(%s)
    requires %s,
    ensures %s,
{
    assert(%s) by (bit_vector) requires %s;
}
''' % (name, ', '.join(params), ',\n        '.join(reqs), goal, goal, ',\n        '.join(reqs))


def gf_lemmas():
    A = ['a%d' % i for i in range(8)]
    B = ['b%d' % i for i in range(8)]
    out = ['verus! {',
           '// bit-level forms: XT(e) is xtime without the branch, (e & MASK(b, k)) is sel(b, k, e) without the branch',
           bv_lemma('bv_comm', 'ab', [], [], '%s == %s' % (PROD(A, 'b0'), PROD(B, 'a0'))),
           bv_lemma('bv_xt', 'a', ['b: u8', 'c: u8', 'p: u8'], ['c == %s' % XT('b'), 'p == %s' % PROD(A, 'b')], '%s == %s' % (PROD(A, 'c'), XT('p'))),
           '''pub proof fn lemma_xt_bits(a: u8)
    ensures xtime(a) == %s,
{
    assert(a & 0x80 != 0 ==> %s == ((a << 1) ^ 0x1D)) by (bit_vector);
    assert(a & 0x80 == 0 ==> %s == (a << 1)) by (bit_vector);
}''' % (XT('a'), XT('a'), XT('a'))]
    cases = '\n'.join('    if k == %d { assert(((b >> %du8) & 1 == 1) ==> (a & %s) == a) by (bit_vector); assert(((b >> %du8) & 1 != 1) ==> (a & %s) == 0) by (bit_vector); }'
                      % (k, k, MASK('b', k), k, MASK('b', k)) for k in range(8))
    out.append('''pub open spec fn selm(b: u8, k: u8, a: u8) -> u8 {
    %s
}
pub proof fn lemma_sel_bits(b: u8, k: u8, a: u8)
    requires k < 8,
    ensures sel(b, k, a) == selm(b, k, a),
{
%s
}''' % (' else '.join('if k == %d { a & %s }' % (k, MASK('b', k)) for k in range(7)) + ' else { a & %s }' % MASK('b', 7), cases))
    out.append('''pub open spec fn xt_chain(a: u8, j: nat) -> u8 decreases j { if j == 0 { a } else { xtime(xt_chain(a, (j - 1) as nat)) } }
// gf_mul as the xor over the xtime chain, and in bit-level form
pub proof fn lemma_gf_unfold(a: u8, b: u8)
    ensures gf_mul(a, b) == sel(b, 0, xt_chain(a, 0)) ^ sel(b, 1, xt_chain(a, 1)) ^ sel(b, 2, xt_chain(a, 2)) ^ sel(b, 3, xt_chain(a, 3))
                          ^ sel(b, 4, xt_chain(a, 4)) ^ sel(b, 5, xt_chain(a, 5)) ^ sel(b, 6, xt_chain(a, 6)) ^ sel(b, 7, xt_chain(a, 7)),
{
    reveal_with_fuel(xt_chain, 9);
}
pub proof fn lemma_chain_bits(a: u8)
    ensures %s,
{
    reveal_with_fuel(xt_chain, 9);
    lemma_xt_bits(xt_chain(a, 0)); lemma_xt_bits(xt_chain(a, 1)); lemma_xt_bits(xt_chain(a, 2)); lemma_xt_bits(xt_chain(a, 3));
    lemma_xt_bits(xt_chain(a, 4)); lemma_xt_bits(xt_chain(a, 5)); lemma_xt_bits(xt_chain(a, 6));
}
pub proof fn lemma_gf_bits(a: u8, b: u8)
    ensures gf_mul(a, b) == %s,
{
    lemma_gf_unfold(a, b);
    lemma_sel_bits(b, 0, xt_chain(a, 0)); lemma_sel_bits(b, 1, xt_chain(a, 1)); lemma_sel_bits(b, 2, xt_chain(a, 2)); lemma_sel_bits(b, 3, xt_chain(a, 3));
    lemma_sel_bits(b, 4, xt_chain(a, 4)); lemma_sel_bits(b, 5, xt_chain(a, 5)); lemma_sel_bits(b, 6, xt_chain(a, 6)); lemma_sel_bits(b, 7, xt_chain(a, 7));
}
// 16-bit fact 1: the product is commutative
pub proof fn lemma_gf_comm(a: u8, b: u8)
    ensures gf_mul(a, b) == gf_mul(b, a),
{
    lemma_gf_bits(a, b); lemma_gf_bits(b, a); lemma_chain_bits(a); lemma_chain_bits(b);
    bv_comm(%s, %s);
}
// 16-bit fact 2: multiplying an operand by x (xtime) multiplies the product by x
pub proof fn lemma_gf_xt(a: u8, b: u8)
    ensures gf_mul(a, xtime(b)) == xtime(gf_mul(a, b)),
{
    lemma_gf_bits(a, b); lemma_gf_bits(a, xtime(b)); lemma_chain_bits(a); lemma_xt_bits(b); lemma_xt_bits(gf_mul(a, b));
    bv_xt(%s, b, xtime(b), gf_mul(a, b));
}
pub proof fn lemma_gf_zero(a: u8)
    ensures gf_mul(a, 0) == 0,
{
    lemma_gf_distributive(a, 0, 0);
    assert(0u8 ^ 0u8 == 0u8) by (bit_vector);
    let p = gf_mul(a, 0);
    assert(p ^ p == 0) by (bit_vector);
}
pub proof fn lemma_gf_sel(s: u8, k: u8, j: u8, x: u8)
    ensures gf_mul(s, sel(k, j, x)) == sel(k, j, gf_mul(s, x)),
{
    lemma_gf_zero(s);
}
pub proof fn lemma_gf_chain(s: u8, x: u8, j: nat)
    ensures gf_mul(s, xt_chain(x, j)) == xt_chain(gf_mul(s, x), j),
    decreases j,
{
    if j > 0 { lemma_gf_chain(s, x, (j - 1) as nat); lemma_gf_xt(s, xt_chain(x, (j - 1) as nat)); }
}
// s * (k * x) == k * (s * x)
pub proof fn lemma_gf_left_comm(s: u8, k: u8, x: u8)
    ensures gf_mul(s, gf_mul(k, x)) == gf_mul(k, gf_mul(s, x)),
{
    let y = gf_mul(s, x);
    lemma_gf_comm(k, x);                       // k * x == x * k == xor_j sel(k, j, xtime^j x)
    lemma_gf_unfold(x, k);
    let u0 = sel(k, 0, xt_chain(x, 0)); let u1 = sel(k, 1, xt_chain(x, 1)); let u2 = sel(k, 2, xt_chain(x, 2)); let u3 = sel(k, 3, xt_chain(x, 3));
    let u4 = sel(k, 4, xt_chain(x, 4)); let u5 = sel(k, 5, xt_chain(x, 5)); let u6 = sel(k, 6, xt_chain(x, 6)); let u7 = sel(k, 7, xt_chain(x, 7));
    lemma_gf_distributive(s, u0 ^ u1 ^ u2 ^ u3 ^ u4 ^ u5 ^ u6, u7);
    lemma_gf_distributive(s, u0 ^ u1 ^ u2 ^ u3 ^ u4 ^ u5, u6);
    lemma_gf_distributive(s, u0 ^ u1 ^ u2 ^ u3 ^ u4, u5);
    lemma_gf_distributive(s, u0 ^ u1 ^ u2 ^ u3, u4);
    lemma_gf_distributive(s, u0 ^ u1 ^ u2, u3);
    lemma_gf_distributive(s, u0 ^ u1, u2);
    lemma_gf_distributive(s, u0, u1);
    lemma_gf_sel(s, k, 0, xt_chain(x, 0)); lemma_gf_sel(s, k, 1, xt_chain(x, 1)); lemma_gf_sel(s, k, 2, xt_chain(x, 2)); lemma_gf_sel(s, k, 3, xt_chain(x, 3));
    lemma_gf_sel(s, k, 4, xt_chain(x, 4)); lemma_gf_sel(s, k, 5, xt_chain(x, 5)); lemma_gf_sel(s, k, 6, xt_chain(x, 6)); lemma_gf_sel(s, k, 7, xt_chain(x, 7));
    lemma_gf_chain(s, x, 0); lemma_gf_chain(s, x, 1); lemma_gf_chain(s, x, 2); lemma_gf_chain(s, x, 3);
    lemma_gf_chain(s, x, 4); lemma_gf_chain(s, x, 5); lemma_gf_chain(s, x, 6); lemma_gf_chain(s, x, 7);
    lemma_gf_unfold(y, k);                     // xor_j sel(k, j, xtime^j y) == y * k
    lemma_gf_comm(y, k);
}
// reachability / non-vacuity of the definitions: concrete products of the field (0x11D, alpha = 2)
pub proof fn lemma_gf_examples()
    ensures gf_mul(2, 0x80) == 0x1D, gf_mul(3, 3) == 5, gf_mul(0x53, 0xCA) != 1, gf_mul(1, 0xAB) == 0xAB,
{
    assert(gf_mul(2, 0x80) == 0x1D) by (compute); assert(gf_mul(3, 3) == 5) by (compute); assert(gf_mul(0x53, 0xCA) != 1) by (compute); assert(gf_mul(1, 0xAB) == 0xAB) by (compute);
}
pub proof fn lemma_gf_assoc(a: u8, b: u8, c: u8)
    ensures gf_mul(gf_mul(a, b), c) == gf_mul(a, gf_mul(b, c)),
{
    lemma_gf_comm(gf_mul(a, b), c); lemma_gf_comm(a, b); lemma_gf_left_comm(c, b, a); lemma_gf_comm(c, a); lemma_gf_comm(b, gf_mul(a, c)); lemma_gf_comm(a, c);
    lemma_gf_left_comm(b, a, c); lemma_gf_comm(b, c);
}
} // verus!''' % (' && '.join('xt_chain(a, %d) == %s' % (i, XT('xt_chain(a, %d)' % (i - 1))) for i in range(1, 8)),
                  PROD(['xt_chain(a, %d)' % i for i in range(8)], 'b').replace('selm', 'selm'),
                  ', '.join('xt_chain(a, %d)' % i for i in range(8)), ', '.join('xt_chain(b, %d)' % i for i in range(8)),
                  ', '.join('xt_chain(a, %d)' % i for i in range(8))))
    return '\n'.join(out)


HOMOG = r'''
verus! {
// ---- C09: multiplying the data by a field constant multiplies every packet by it
pub open spec fn scale_view(v: Seq<Seq<u8>>, c: u8) -> Seq<Seq<u8>> { Seq::new(v.len(), |i: int| mul_seq(v[i], c)) }
pub proof fn lemma_op_homogeneous(v: Seq<Seq<u8>>, op: SymbolOps, c: u8, ss: int)
    requires uniform(v, ss), op_in_range(v, op),
    ensures apply_op(scale_view(v, c), op) == scale_view(apply_op(v, op), c), uniform(apply_op(v, op), ss),
{
    let l = apply_op(scale_view(v, c), op);
    let r = scale_view(apply_op(v, op), c);
    assert(l.len() == r.len());
    assert forall |i: int| 0 <= i < l.len() implies l[i] == r[i] by {
        match op {
            SymbolOps::AddAssign { dest, src } => {
                if i == dest as int {
                    assert forall |j: int| 0 <= j < ss implies l[i][j] == r[i][j] by { lemma_gf_distributive(c, v[dest as int][j], v[src as int][j]); }
                }
                assert(l[i] =~= r[i]);
            }
            SymbolOps::MulAssign { dest, scalar } => {
                if i == dest as int {
                    assert forall |j: int| 0 <= j < ss implies l[i][j] == r[i][j] by { lemma_gf_left_comm(scalar.value, c, v[dest as int][j]); }
                }
                assert(l[i] =~= r[i]);
            }
            SymbolOps::FMA { dest, src, scalar } => {
                if i == dest as int {
                    assert forall |j: int| 0 <= j < ss implies l[i][j] == r[i][j] by {
                        lemma_gf_left_comm(scalar.value, c, v[src as int][j]);
                        lemma_gf_distributive(c, v[dest as int][j], gf_mul(scalar.value, v[src as int][j]));
                    }
                }
                assert(l[i] =~= r[i]);
            }
            SymbolOps::Reorder { order } => { assert(l[i] =~= r[i]); }
        }
    }
    assert(l =~= r);
    assert forall |i: int| 0 <= i < apply_op(v, op).len() implies (#[trigger] apply_op(v, op)[i]).len() == ss by {
        match op {
            SymbolOps::Reorder { order } => { assert((order@[i] as int) < v.len()); }
            _ => { }
        }
    }
}
// ... hence every plan (the whole pre-code solve, as replayed by gen_intermediate_symbols_with_plan)
pub proof fn lemma_plan_homogeneous(v: Seq<Seq<u8>>, ops: Seq<SymbolOps>, n: nat, c: u8, ss: int)
    requires uniform(v, ss), n <= ops.len(), plan_ok(ops, v.len() as int),
    ensures apply_ops(scale_view(v, c), ops, n) == scale_view(apply_ops(v, ops, n), c), uniform(apply_ops(v, ops, n), ss), apply_ops(v, ops, n).len() == v.len(),
    decreases n,
{
    if n > 0 {
        lemma_plan_homogeneous(v, ops, (n - 1) as nat, c, ss);
        let prev = apply_ops(v, ops, (n - 1) as nat);
        let op = ops[n - 1];
        assert(op_in_range(prev, op)) by {
            match op {
                SymbolOps::Reorder { order } => { assert(map_ok(order@, v.len() as int)); }
                _ => { }
            }
        }
        lemma_op_homogeneous(prev, op, c, ss);
        match op {
            SymbolOps::Reorder { order } => { assert(apply_op(prev, op).len() == v.len()); }
            _ => { }
        }
    }
}
// ... the D vector of scaled source symbols is the scaled D vector (zero padding stays zero)
pub proof fn lemma_d_homogeneous(src: Seq<Seq<u8>>, ss: int, c: u8)
    requires uniform(src, ss), ss >= 0, l_of(src.len() as int) >= 0,
    ensures d_spec(scale_view(src, c), ss) == scale_view(d_spec(src, ss), c), uniform(d_spec(src, ss), ss),
{
    let l = d_spec(scale_view(src, c), ss);
    let r = scale_view(d_spec(src, ss), c);
    lemma_gf_zero(c);
    assert(l.len() == r.len());
    assert forall |i: int| 0 <= i < l.len() implies l[i] == r[i] by { assert(l[i] =~= r[i]); }
    assert(l =~= r);
}
// ... and the encoding symbol Enc[K', C, tuple] (xor of the intermediate symbols at the tuple's index walk, V-ENCINTO) of the scaled
// intermediate symbols is the scaled encoding symbol
pub proof fn lemma_acc_homogeneous(v: Seq<Seq<u8>>, idx: Seq<int>, n: nat, c: u8, ss: int)
    requires uniform(v, ss), 1 <= n <= idx.len(), forall |j: int| 0 <= j < n ==> 0 <= #[trigger] idx[j] < v.len(),
    ensures acc(scale_view(v, c), idx, n) == mul_seq(acc(v, idx, n), c), acc(v, idx, n).len() == ss,
    decreases n,
{
    if n > 1 {
        lemma_acc_homogeneous(v, idx, (n - 1) as nat, c, ss);
        let a = acc(v, idx, (n - 1) as nat); let b = v[idx[n - 1]];
        assert(b.len() == ss);
        assert forall |j: int| 0 <= j < ss implies xor_seq(mul_seq(a, c), mul_seq(b, c))[j] == mul_seq(xor_seq(a, b), c)[j] by { lemma_gf_distributive(c, a[j], b[j]); }
        assert(xor_seq(mul_seq(a, c), mul_seq(b, c)) =~= mul_seq(xor_seq(a, b), c));
        assert(scale_view(v, c)[idx[n - 1]] == mul_seq(b, c));
    } else {
        assert(v[idx[0]].len() == ss);
        assert(scale_view(v, c)[idx[0]] == mul_seq(v[idx[0]], c));
    }
}
// THE PROPERTY, end to end over the contracts: scaled source symbols -> scaled intermediate symbols -> scaled encoding symbols
pub proof fn lemma_encoding_homogeneous(src: Seq<Seq<u8>>, ops: Seq<SymbolOps>, idx: Seq<int>, n: nat, c: u8, ss: int)
    requires uniform(src, ss), ss >= 0, l_of(src.len() as int) >= 0, plan_ok(ops, l_of(src.len() as int)),
             1 <= n <= idx.len(), forall |j: int| 0 <= j < n ==> 0 <= #[trigger] idx[j] < l_of(src.len() as int),
    ensures acc(apply_ops(d_spec(scale_view(src, c), ss), ops, ops.len()), idx, n) == mul_seq(acc(apply_ops(d_spec(src, ss), ops, ops.len()), idx, n), c),
{
    lemma_d_homogeneous(src, ss, c);
    let d = d_spec(src, ss);
    lemma_plan_homogeneous(d, ops, ops.len(), c, ss);
    lemma_acc_homogeneous(apply_ops(d, ops, ops.len()), idx, n, c, ss);
}
} // verus!
'''


def build():
    u = VUnit('V-LIN')
    u.raw(common.PRELUDE)
    u.raw(common.ARITH)
    u.raw('verus! {')
    u.struct('src/octet.rs', 'Octet')
    u.struct('src/symbol_slab.rs', 'SymbolSlab')
    u.struct('src/operation_vector.rs', 'SymbolOps', kind='enum')
    u.struct('src/symbol.rs', 'Symbol')
    u.raw('} // verus!')
    u.raw(v_slab.SPEC)
    u.raw('verus! {\n' + v_slab.ENC_SPEC.replace('''impl Symbol {
    #[verifier::external_body]
    pub fn as_bytes(&self) -> (r: &[u8]) ensures r@ == self.value@ { unimplemented!() }
}''', '') + '\n} // verus!', label='D vector / plan semantics of V-SLAB')
    u.raw(v_encinto.SPEC, label='Enc index walk / xor accumulation spec of V-ENCINTO')
    u.raw(gf_lemmas(), label='field structure of the shift-and-xor product (generated bit-level forms)')
    u.raw(HOMOG, label='scalar homogeneity lemmas')
    u.trust('V-LIN contains lemmas only (no executable code): they are consequences of the contracts that V-SLAB and V-ENCINTO prove on the real functions; '
            'gf_mul of the contracts is tied to the real Octet product by K-GF (all pairs) and to the bulk kernels by K-KERN (bounded)')
    return u
