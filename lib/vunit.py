"""Verus units: build one Verus file from (spec library text) + (items extracted mechanically from /repo/src on
this run, with contract clauses spliced in) + (lemmas); run verus; attribute every error to an item."""
import json, os, re, subprocess, time, hashlib
import rsx

REPO = os.environ.get('VERIF_REPO', '/repo')
BUILD = os.environ.get('VERIF_BUILD', '/verif/.build')

VERIF_ERR = re.compile(r'(postcondition not satisfied|precondition not satisfied|assertion failed|invariant not satisfied|'
                       r'possible arithmetic underflow/overflow|possible division by zero|possible bit shift|'
                       r'decreases not satisfied|could not prove termination|unable to prove|'
                       r'index out of bounds|cannot prove|assertion failure|failed this|not satisfied)')
RLIMIT_ERR = re.compile(r'(Resource limit|rlimit|timed out|solver gave up|incomplete)', re.I)


class VUnit:
    def __init__(self, name, title=''):
        self.name = name
        self.title = title
        self.parts = []       # (kind, text_main, text_canary, meta)
        self.items = []       # extracted Items (for evidence)
        self.trusted = []     # external_body / assume_specification / axioms (text notes)
        self.src_cache = {}
        self.witness = None   # optional callable(failures) -> dict(input=..., replayed=bool, text=...)

    # ---- helpers
    def src(self, file):
        if file not in self.src_cache:
            p = os.path.join(REPO, file)
            if not os.path.exists(p):
                raise rsx.ExtractError('lost anchor: file %s' % file)
            self.src_cache[file] = open(p).read()
        return self.src_cache[file]

    def raw(self, text, canary=True, label=None):
        self.parts.append(('raw', text, text if canary else '', {'label': label}))
        for m in re.finditer(r'(external_body|assume_specification|admit\(\)|assume\()', text):
            pass
        return self

    def trust(self, note):
        self.trusted.append(note)
        return self

    def const(self, file, name, subst=()):
        it = rsx.find_const(self.src(file), name, file)
        text = 'pub ' + rsx.drop_visibility(it.full)
        for a, b in subst:
            text = text.replace(a, b)
        self.items.append(it)
        self.parts.append(('item', text, text, {'item': it}))
        return self

    def struct(self, file, name, kind='struct', subst=(), prefix=''):
        it = rsx.find_struct(self.src(file), name, file, kind)
        text = rsx.drop_visibility(it.full)
        text = re.sub(r'^\s*#\[[^\]]*\]\s*\n', '', text, flags=re.M)
        text = re.sub(r'^\s*///?.*\n', '', text, flags=re.M)
        for a, b in subst:
            text = text.replace(a, b)
        if kind == 'struct':
            # visibility is dropped by the extractor; make everything uniformly visible to the spec library
            text = re.sub(r'^(\s*)struct ', r'\1pub struct ', text, count=1, flags=re.M)
            text = re.sub(r'^(\s+)([a-z_][A-Za-z0-9_]*\s*:)', r'\1pub \2', text, flags=re.M)
        elif kind == 'enum':
            text = re.sub(r'^(\s*)enum ', r'\1pub enum ', text, count=1, flags=re.M)
        text = prefix + text
        self.items.append(it)
        self.parts.append(('item', text, text, {'item': it}))
        return self

    def fn(self, file, name, impl=None, nth=0, ret=None, requires=(), ensures=(), loops=None, inserts=(),
           rules=(), subst=(), sig_subst=(), external_body=False, canary=True, rename=None, ret_type=None,
           attrs='', body_override=None, decreases=None, opens_invariants=None, no_unwind=False, returns=None, post=(), opt_inserts=(), resubst=(), d5=None, sig_override=None, append=None, prepend=None, opt_subst=(), opt_rules=(), isolate_loops=False, hint_inserts=(), inline=()):
        """extract `fn name` and splice the contract. `rules`: names of rsx.rule_* to apply to the body.
        `subst`: [(literal, replacement, rulename)] literal body substitutions (each must match, logged as a rule).
        `loops`: {ordinal: 'invariant ..., decreases ..'} ; `inserts`: [(anchor, before|after|replace, text)]"""
        it = rsx.find_fn(self.src(file), name, impl, file, nth)
        sig = rsx.drop_visibility(it.sig)
        body = it.body
        fired = []
        body = rsx.strip_comments(body)
        body = rsx.drop_attrs_in_body(body)
        if d5:
            # rule D5: loop-body / continuation split of `for PAT in <opaque IntoIterator> { B } REST`
            pat, itn, lb, rest = rsx.split_first_for(body)
            body = lb if d5 == 'step' else rest
            fired.append('D5-%s (for %s in %s)' % (d5, pat, itn))
        if sig_override:
            sig = sig_override
        for cfile, cname in inline:
            # rule I1: beta-reduce a call of a generic repository function applied to a closure literal
            callee = rsx.find_fn(self.src(cfile), cname, None, cfile, 0)
            body, n = rsx.inline_closure_call(body, callee)
            fired.append('I1-inline %s::%s (closure called %d times)' % (cfile, cname, n))
        for r in rules:
            fnr = getattr(rsx, 'rule_' + r)
            body, n = fnr(body)
            if n == 0:
                raise rsx.ExtractError('rule %s did not match in %s::%s' % (r, file, name))
            fired.append('%s x%d' % (r, n))
        for r in opt_rules:
            body, n = getattr(rsx, 'rule_' + r)(body)
            if n:
                fired.append('%s x%d' % (r, n))
        for s in subst:
            lit, rep, rn = s
            c = body.count(lit)
            if c == 0:
                raise rsx.ExtractError('lost anchor: substitution %r (%s) in %s::%s' % (lit, rn, file, name))
            body = body.replace(lit, rep)
            fired.append('%s x%d' % (rn, c))
        for lit, rep, rn in opt_subst:
            # model-function rewrites of std calls (S1/S2/S3): applied where the call occurs, skipped where the code no longer has it
            c = body.count(lit)
            if c:
                body = body.replace(lit, rep)
                fired.append('%s x%d' % (rn, c))
        for rx_, rep, rn in resubst:
            body, c = re.subn(rx_, rep, body)
            if c == 0:
                raise rsx.ExtractError('lost anchor: regex substitution %r (%s) in %s::%s' % (rx_, rn, file, name))
            fired.append('%s x%d' % (rn, c))
        for lit, rep in sig_subst:
            if lit not in sig:
                raise rsx.ExtractError('lost anchor: signature substitution %r in %s::%s' % (lit, file, name))
            sig = sig.replace(lit, rep)
        for pp in post:
            body = getattr(rsx, pp)(body)
            fired.append(pp)
        if loops:
            body = rsx.annotate_loops(body, loops, name)
        for anchor, where, text in inserts:
            body = rsx.insert_at(body, anchor, where, text, name)
        if prepend:
            body = '{\n' + prepend + '\n' + body.lstrip()[1:]
        if append:
            body = body.rstrip()[:-1] + '\n' + append + '\n}'
        missing_hints = []
        for anchor, where, text in hint_inserts:
            # proof hints tied to one spelling of the code: if the anchor is gone the hint is dropped, and a failed obligation in this
            # function is then reported as UNDECIDED (the proof may simply miss its hint), never as a violation
            if body.count(anchor) == 1:
                body = rsx.insert_at(body, anchor, where, text, name)
            else:
                missing_hints.append(anchor[:50])
                fired.append('proof hint dropped (anchor %r gone)' % anchor[:40])
        for anchor, where, text in opt_inserts:
            # proof hints / type annotations that are only needed for one spelling of the code: skipped when the anchor is gone
            if body.count(anchor) == 1:
                body = rsx.insert_at(body, anchor, where, text, name)
            else:
                fired.append('optional insert skipped (anchor %r not unique/present)' % anchor[:40])
        if rename:
            sig = re.sub(r'\bfn\s+' + re.escape(name) + r'\b', 'fn ' + rename, sig, count=1)
        # named return value
        sig = self._name_return(sig, ret, ret_type)
        clauses = ''
        if requires:
            clauses += '\n    requires\n' + ''.join('        %s,\n' % c for c in requires)
        if ensures:
            clauses += '\n    ensures\n' + ''.join('        %s,\n' % c for c in ensures)
        if returns:
            clauses += '\n    returns %s,\n' % returns
        if opens_invariants:
            clauses += '\n    opens_invariants %s\n' % opens_invariants
        if no_unwind:
            clauses += '\n    no_unwind\n'
        if decreases:
            clauses += '\n    decreases %s,\n' % decreases
        head = attrs + ('\n' if attrs else '')
        # loops see the facts established before them about variables they do not modify: invariants only have to speak about
        # what the loop changes, so introducing or renaming an unmodified local does not break the proof
        li = '' if isolate_loops else '#[verifier::loop_isolation(false)]\n'
        if body_override is not None:
            body = body_override
        if external_body:
            main = head + '#[verifier::external_body]\n' + sig + clauses + '\n{ unimplemented!() }\n'
            self.trusted.append('external_body (contract assumed, body not verified): %s::%s%s' % (file, (impl + '::') if impl else '', name))
        else:
            main = head + li + sig + clauses + '\n' + body + '\n'
        can = ''
        cname = None
        if canary and requires:
            cname = (rename or name) + '_verifcanary'
            csig = re.sub(r'\bfn\s+' + re.escape(rename or name) + r'\b', 'fn ' + cname, sig, count=1)
            can = head + csig + '\n    requires\n' + ''.join('        %s,\n' % c for c in requires) + '\n{ assert(false); vstd::pervasive::unreached() }\n'
        # in the canary file the real function stays as a contract-only (external_body) declaration so callers type-check
        can_decl = head + '#[verifier::external_body]\n' + sig + clauses + '\n{ unimplemented!() }\n'
        it.rules = fired
        it.missing_hints = missing_hints
        it.contract = {'requires': list(requires), 'ensures': list(ensures), 'loops': len(loops or {}),
                       'external_body': external_body}
        it.emit_name = rename or name
        it.canary_name = cname
        it.impl = impl
        self.items.append(it)
        self.parts.append(('fn', main, can_decl + can, {'item': it, 'ext_decl': can_decl, 'external': external_body}))
        return self

    @staticmethod
    def _name_return(sig, ret, ret_type):
        m = rsx.find_top(sig, r'->', 0, None)
        if not m:
            return sig
        # return type runs to 'where' at depth 0 or end
        mw = rsx.find_top(sig, r'\bwhere\b', m.end(), None)
        end = mw.start() if mw else len(sig)
        rt = sig[m.end():end].strip()
        if ret_type:
            rt = ret_type
        name = ret or 'r'
        return sig[:m.start()] + '-> (%s: %s)' % (name, rt) + ('\n' + sig[end:] if mw else '')

    # ---- generation
    def generate(self, demote=()):
        head = '// GENERATED by /verif/lib/vunit.py from %s working tree; do not edit\n' % REPO
        main, can = [head], [head]
        linemap = []  # (first_line, last_line, meta)
        cline = 1 + head.count('\n')
        canmap = []
        ccl = cline
        for kind, tm, tc, meta in self.parts:
            if kind == 'fn' and meta['item'].emit_name in demote and meta['item'].file + '::' + meta['item'].emit_name in demote[meta['item'].emit_name]:
                tm = meta['ext_decl']
            n = tm.count('\n') + 1
            linemap.append((cline, cline + n - 1, kind, meta))
            main.append(tm + '\n')
            cline += n
            if tc:
                n2 = tc.count('\n') + 1
                canmap.append((ccl, ccl + n2 - 1, kind, meta))
                can.append(tc + '\n')
                ccl += n2
        return ''.join(main), ''.join(can), linemap, canmap


def run_verus(path, rlimit=None, extra=()):
    cmd = ['verus', path, '--output-json', '--time', '--multiple-errors', '10', '--triggers-mode', 'silent'] + list(extra)
    if rlimit:
        cmd += ['--rlimit', str(rlimit)]
    t0 = time.time()
    try:
        p = subprocess.run(cmd, capture_output=True, text=True, timeout=1800, cwd=os.path.dirname(path))
    except subprocess.TimeoutExpired:
        return {'cmd': ' '.join(cmd), 'timeout': True, 'wall_s': time.time() - t0, 'json': None, 'stderr': 'timeout', 'rc': -1}
    js = None
    try:
        js = json.loads(p.stdout)
    except Exception:
        # JSON may be preceded by other output
        i = p.stdout.find('{')
        if i >= 0:
            try:
                js = json.loads(p.stdout[i:])
            except Exception:
                js = None
    return {'cmd': ' '.join(cmd), 'timeout': False, 'wall_s': time.time() - t0, 'json': js, 'stderr': p.stderr, 'rc': p.returncode}


def parse_errors(stderr, path):
    """split rustc-style diagnostics; return list of dict(level,msg,line,text)"""
    out = []
    blocks = re.split(r'\n(?=(?:error|warning|note)(?:\[[A-Z0-9]+\])?: )', '\n' + stderr)
    base = os.path.basename(path)
    for b in blocks:
        m = re.match(r'\s*(error|warning|note)(\[[A-Z0-9]+\])?: (.*)', b)
        if not m:
            continue
        loc = re.search(r'--> ([^:\n]+):(\d+):(\d+)', b)
        lines = [int(x.group(2)) for x in re.finditer(r'--> ([^:\n]+):(\d+):(\d+)', b)]
        # secondary spans are shown as " NNN | " gutter lines
        gutter = [int(x) for x in re.findall(r'^\s*(\d+) [|/]', b, flags=re.M)]
        out.append({'level': m.group(1), 'code': m.group(2), 'msg': m.group(3).strip(), 'line': int(loc.group(2)) if loc else None,
                    'file': loc.group(1) if loc else None, 'all_lines': sorted(set(lines + gutter)), 'text': b.strip()})
    return out


def func_breakdown(js):
    res = {}
    try:
        for mod in js['times-ms']['smt']['smt-run-module-times']:
            for f in mod.get('function-breakdown', []):
                res[f['function']] = f
    except Exception:
        pass
    return res


def check_unit(unit_builder, name, tier='quick'):
    """Build + run a Verus unit. Returns result dict:
       status: ok | violation | undecided ; failures: [...]; counts; trusted; items"""
    os.makedirs(os.path.join(BUILD, 'verus'), exist_ok=True)
    res = {'unit': name, 'engine': 'verus 0.2026.09.13 (Z3 bundled) on text extracted from /repo/src on this run',
           'status': 'undecided', 'failures': [], 'obligations': 0, 'discharged': 0, 'functions': [], 'rules': [],
           'trusted': [], 'solver_s': 0.0, 'wall_s': 0.0, 'notes': [], 'samples': []}
    t0 = time.time()
    demoted = {}
    attempt = 0
    while True:
        attempt += 1
        try:
            u = unit_builder()
            main, can, linemap, canmap = u.generate(demoted)
        except rsx.ExtractError as e:
            res['notes'].append('EXTRACTION FAILURE (tooling, not a violation): %s' % e)
            res['wall_s'] = time.time() - t0
            return res
        mp = os.path.join(BUILD, 'verus', name.replace('-', '_').lower() + '.rs')
        cp = os.path.join(BUILD, 'verus', name.replace('-', '_').lower() + '_canary.rs')
        os.makedirs(os.path.dirname(mp), exist_ok=True)
        open(mp, 'w').write(main)
        open(cp, 'w').write(can)
        res['generated'] = mp
        res['trusted'] = list(u.trusted)
        res['functions'] = []
        res['rules'] = []
        for it in u.items:
            if it.kind == 'fn':
                dem = it.emit_name in demoted
                res['functions'].append('%s:%d %s%s%s%s' % (it.file, it.line, (it.impl + '::') if getattr(it, 'impl', None) else '', it.name,
                                                         ' [external_body: contract assumed]' if it.contract.get('external_body') else '',
                                                         ' [NOT VERIFIED IN THIS RUN: body uses a construct outside the extraction rules]' if dem else ''))
                if it.rules:
                    res['rules'].append('%s::%s: %s' % (it.file, it.name, ', '.join(it.rules)))
        # run main and canary concurrently
        import concurrent.futures as cf
        with cf.ThreadPoolExecutor(2) as ex:
            fm = ex.submit(run_verus, mp)
            fc = ex.submit(run_verus, cp)
            rm, rc_ = fm.result(), fc.result()
        # a front-end error inside ONE extracted function must not hide violations in the others: demote that function to its
        # contract (external_body) and run again; the unit then ends undecided unless another obligation fails
        js0 = rm['json']
        errs0 = [e for e in parse_errors(rm['stderr'], mp) if e['level'] == 'error' and not e['msg'].startswith('aborting due to')]
        fe = [e for e in errs0 if (e['code'] or not VERIF_ERR.search(e['msg'])) and not (RLIMIT_ERR.search(e['msg']))]
        newly = False
        if fe and attempt <= 4 and js0 is not None:
            for e in fe:
                for a, b, kind, meta in linemap:
                    if e['line'] is not None and a <= e['line'] <= b and kind == 'fn' and not meta.get('external'):
                        it = meta['item']
                        key = it.file + '::' + it.emit_name
                        if key not in demoted.get(it.emit_name, set()):
                            demoted.setdefault(it.emit_name, set()).add(key)
                            res['notes'].append('front-end error in %s::%s (%s): function demoted to its contract for this run (NOT verified)' % (it.file, it.emit_name, e['msg'][:160]))
                            newly = True
        if not newly:
            break
    res['checker_cmd'] = rm['cmd']
    res['verifier_output'] = rm['stderr'][-20000:]
    js = rm['json']
    if rm['timeout'] or js is None:
        res['notes'].append('verus produced no JSON (timeout=%s rc=%s): undecided' % (rm['timeout'], rm['rc']))
        res['wall_s'] = time.time() - t0
        return res
    vr = js.get('verification-results', {})
    errs = [e for e in parse_errors(rm['stderr'], mp) if e['level'] == 'error' and not e['msg'].startswith('aborting due to')]
    fb = func_breakdown(js)
    res['solver_s'] = js.get('times-ms', {}).get('smt', {}).get('total', 0) / 1000.0
    nverified = vr.get('verified', 0)
    nerr = vr.get('errors', 0)
    res['obligations'] = nverified + nerr
    res['discharged'] = nverified
    res['clauses'] = {'requires': sum(len(i.contract['requires']) for i in u.items if i.kind == 'fn'),
                      'ensures': sum(len(i.contract['ensures']) for i in u.items if i.kind == 'fn'),
                      'loop_specs': sum(i.contract['loops'] for i in u.items if i.kind == 'fn'),
                      'assert_stmts': main.count('assert(') + main.count('assert ')}
    res['samples'] = [k for k in list(fb.keys())[:6]]
    tool_errors = []
    if vr.get('encountered-vir-error'):
        tool_errors.append('verus front-end (VIR) error')
    for e in errs:
        if e['code'] or not VERIF_ERR.search(e['msg']):
            if RLIMIT_ERR.search(e['msg']) or RLIMIT_ERR.search(e['text'][:400]):
                res['notes'].append('solver resource limit: %s' % e['msg'])
                e['rlimit'] = True
            else:
                tool_errors.append(e['msg'] + ' @gen line %s' % e['line'])
    if tool_errors:
        res['notes'].append('TOOL/FRONT-END ERRORS (undecided, not a violation): ' + ' | '.join(tool_errors[:8]))
        res['wall_s'] = time.time() - t0
        return res
    rl = [e for e in errs if e.get('rlimit')]
    verr = [e for e in errs if not e.get('rlimit')]

    def locate(line):
        for a, b, kind, meta in linemap:
            if line is not None and a <= line <= b:
                return kind, meta
        return None, {}
    gen_lines = main.split('\n')
    for e in verr:
        kind, meta = locate(e['line'])
        it = meta.get('item')
        where = ('%s:%d fn %s' % (it.file, it.line, it.name)) if it is not None else ('spec/lemma text (%s)' % (meta.get('label') or 'raw'))
        src_line = gen_lines[e['line'] - 1].strip() if e['line'] and e['line'] <= len(gen_lines) else ''
        if it is not None and getattr(it, 'missing_hints', None):
            res['notes'].append('obligation failed in %s but its proof hints could not be placed (anchors %s no longer in the code): UNDECIDED, not a violation: %s' % (where, it.missing_hints, e['msg']))
            res['hintless_failures'] = res.get('hintless_failures', 0) + 1
            continue
        res['failures'].append({'engine': 'verus', 'unit': name, 'kind': e['msg'], 'function': where,
                                'obligation': '%s: %s  [%s]' % (e['msg'], src_line[:200], where),
                                'gen_line': e['line'], 'verifier_output': e['text'][:4000]})
    # canaries: every contracted function's precondition must be satisfiable -> its canary must FAIL
    cj = rc_['json']
    vac = []
    ncan = 0
    if cj is None:
        res['notes'].append('canary run produced no JSON: void')
        res['wall_s'] = time.time() - t0
        return res
    cerrs = [e for e in parse_errors(rc_['stderr'], cp) if e['level'] == 'error']
    bad_lines = set()
    for e in cerrs:
        for l in e['all_lines']:
            bad_lines.add(l)
    if cj.get('verification-results', {}).get('encountered-vir-error'):
        res['notes'].append('canary file has front-end errors: void (%s)' % '; '.join(e['msg'] for e in cerrs[:3]))
        res['wall_s'] = time.time() - t0
        return res
    can_lines = can.split('\n')
    for a, b, kind, meta in canmap:
        it = meta.get('item')
        if kind == 'fn' and it is not None and it.canary_name:
            ncan += 1
            # find the line of 'assert(false)' of this canary
            hit = False
            for l in range(a, b + 1):
                if l - 1 < len(can_lines) and 'assert(false)' in can_lines[l - 1] and l in bad_lines:
                    hit = True
            if not hit:
                vac.append(it.name)
    res['canaries'] = {'total': ncan, 'failed_as_required': ncan - len(vac), 'vacuous': vac}
    if vac:
        res['notes'].append('VACUOUS precondition (canary verified) for: %s -> run void' % ', '.join(vac))
        res['wall_s'] = time.time() - t0
        return res
    if res['failures']:
        res['status'] = 'violation'
    elif rl or nerr > 0 or not vr.get('success'):
        res['notes'].append('not all obligations discharged (rlimit or unattributed error): undecided')
    elif res['obligations'] == 0:
        res['notes'].append('zero obligations generated: void')
    elif demoted:
        res['notes'].append('some functions could not be verified in this run (see above): undecided')
    else:
        res['status'] = 'ok'
    res['wall_s'] = time.time() - t0
    return res
