"""Kani units: harnesses live in /verif/hooks/*.rs and are compiled inside the real crate through cfg-guarded
`#[path]` modules.  One `cargo kani` run per unit (parallel harnesses), results read from Kani's JSON export
per check; counterexamples are re-run natively on the real code through Kani's concrete playback."""
import json, os, re, subprocess, time, hashlib

REPO = os.environ.get('VERIF_REPO', '/repo')
BUILD = os.environ.get('VERIF_BUILD', '/verif/.build')
GUARD = 'cberner_raptorq_verif'


class H:
    """one harness: name = full path inside the crate"""
    def __init__(self, name, complete, bound='', refusal=False, unwind_is_obligation=False, timeout='15m',
                 note='', tier='quick', covers=True, functions=()):
        self.name, self.complete, self.bound = name, complete, bound
        self.refusal, self.unwind_is_obligation = refusal, unwind_is_obligation
        self.timeout, self.note, self.tier, self.covers = timeout, note, tier, covers
        self.functions = list(functions)


def _env(extra_cfg=()):
    e = dict(os.environ)
    flags = '--cfg %s' % GUARD + ''.join(' --cfg %s' % c for c in extra_cfg)
    e['RUSTFLAGS'] = flags
    e['CARGO_NET_OFFLINE'] = 'true'
    e.pop('CARGO_TARGET_DIR', None)
    return e


BATCH = 48   # kani-driver keeps every harness's CBMC output in memory (553 harnesses in one run: 41 GB, OOM-killed): run in batches


def run_kani(unit, harnesses, jobs=8, timeout='15m'):
    """runs the harnesses in batches of BATCH per cargo-kani invocation and merges the JSON exports"""
    if len(harnesses) <= BATCH:
        return _run_kani_once(unit, harnesses, jobs, timeout)
    merged = None
    out = {'cmd': '', 'rc': 0, 'stdout': '', 'stderr': '', 'json': None, 'wall_s': 0.0}
    nb = (len(harnesses) + BATCH - 1) // BATCH
    for b in range(nb):
        part = harnesses[b * BATCH:(b + 1) * BATCH]
        r = _run_kani_once(unit, part, jobs, timeout)
        if r['json'] is None:
            # kani-driver died (e.g. out of memory because something else was running): one retry for this batch
            w0 = r['wall_s']
            r = _run_kani_once(unit, part, jobs, timeout)
            r['wall_s'] += w0
        out['wall_s'] += r['wall_s']
        out['rc'] = out['rc'] or r['rc']
        out['stdout'] = (out['stdout'] + r['stdout'])[-20000:]
        out['stderr'] = (out['stderr'] + r['stderr'])[-20000:]
        if not out['cmd']:
            out['cmd'] = '(%d batches of <= %d harnesses, first shown) ' % (nb, BATCH) + r['cmd']
        if r['json'] is None:
            # a batch without export: its harnesses get no verdict (reported undecided one by one), the others keep theirs
            continue
        if merged is None:
            merged = r['json']
        else:
            merged['verification_results']['results'] += r['json']['verification_results']['results']
    out['json'] = merged
    return out


def _run_kani_once(unit, harnesses, jobs=8, timeout='15m'):
    os.makedirs(BUILD, exist_ok=True)
    out_json = os.path.join(BUILD, 'kani_%s.json' % unit.replace('-', '_').lower())
    if os.path.exists(out_json):
        os.remove(out_json)
    cmd = ['cargo', 'kani', '--manifest-path', os.path.join(REPO, 'Cargo.toml'), '--target-dir', os.path.join(BUILD, 'kani'),
           '-Z', 'function-contracts', '-Z', 'stubbing', '-Z', 'unstable-options', '--harness-timeout', timeout,
           '-j', str(jobs), '--output-format=terse', '--export-json', out_json, '--exact']
    for h in harnesses:
        cmd += ['--harness', h.name]
    t0 = time.time()
    p = subprocess.run(cmd, capture_output=True, text=True, env=_env(), cwd=REPO)
    wall = time.time() - t0
    js = None
    if os.path.exists(out_json):
        try:
            js = json.load(open(out_json))
        except Exception:
            js = None
    return {'cmd': 'RUSTFLAGS="--cfg %s" CARGO_NET_OFFLINE=true ' % GUARD + ' '.join(cmd), 'rc': p.returncode,
            'stdout': p.stdout, 'stderr': p.stderr, 'json': js, 'wall_s': wall}


def playback(harness_name, want_desc=None):
    """re-run one failing harness with --concrete-playback=print, then execute the generated test natively
    against the real code.  Returns dict(test=..., values=[...], replayed=bool, native_output=...)"""
    cmd = ['cargo', 'kani', '--manifest-path', os.path.join(REPO, 'Cargo.toml'), '--target-dir', os.path.join(BUILD, 'kani'),
           '-Z', 'function-contracts', '-Z', 'stubbing', '-Z', 'concrete-playback', '--concrete-playback=print',
           '--exact', '--harness', harness_name]
    try:
        p = subprocess.run(cmd, capture_output=True, text=True, env=_env(), cwd=REPO, timeout=1800)
    except subprocess.TimeoutExpired:
        return {'replayed': False, 'note': 'concrete playback run timed out'}
    tests = re.findall(r'```\n(.*?)```', p.stdout, flags=re.S)
    if not tests:
        return {'replayed': False, 'note': 'Kani produced no concrete playback test', 'kani_tail': p.stdout[-3000:]}
    pick = None
    for t in tests:
        if want_desc and want_desc.strip('"') in t:
            pick = t
            break
    if pick is None:
        pick = tests[-1]
    short = harness_name.split('::')[-1]
    # the generated test calls the harness by its bare name; use the crate path
    body = re.sub(r'concrete_playback_run\(concrete_vals, ' + re.escape(short) + r'\)',
                  'concrete_playback_run(concrete_vals, crate::' + harness_name + ')', pick)
    vals = re.findall(r'^\s*// (.+)$', pick, flags=re.M)
    os.makedirs(os.path.join(BUILD, 'playback'), exist_ok=True)
    open(os.path.join(BUILD, 'playback', 'pb.rs'), 'w').write(body)
    env = _env(['cberner_raptorq_verif_playback'])
    env['CARGO_TARGET_DIR'] = os.path.join(BUILD, 'kani_pb')
    try:
        q = subprocess.run(['cargo', 'kani', 'playback', '-Z', 'concrete-playback', '--lib', '--', 'kani_concrete_playback'],
                           capture_output=True, text=True, env=env, cwd=REPO, timeout=1800)
        out = (q.stdout + q.stderr)
        failed = ('test result: FAILED' in out)
        ran = 'running 1 test' in out or 'test result:' in out
    except subprocess.TimeoutExpired:
        out, failed, ran = 'native playback timed out', False, False
    finally:
        open(os.path.join(BUILD, 'playback', 'pb.rs'), 'w').write('// empty\n')
    m = re.search(r"panicked at [^\n]*\n([^\n]*)", out)
    return {'replayed': bool(failed), 'ran': ran, 'test': pick, 'values': vals,
            'native_panic': (m.group(0)[:400] if m else None), 'native_tail': out[-2500:]}


def _tree_hash(unit, hs, tier):
    h = hashlib.sha256()
    roots = [os.path.join(REPO, 'src'), '/verif/hooks', '/verif/spec']
    files = [os.path.join(REPO, 'Cargo.toml'), os.path.join(REPO, 'Cargo.lock'), '/verif/lib/kunit.py']
    for r in roots:
        for root, _, fs in os.walk(r):
            for f in sorted(fs):
                files.append(os.path.join(root, f))
    for f in sorted(files):
        if os.path.exists(f):
            h.update(f.encode()); h.update(open(f, 'rb').read())
    h.update(repr([(x.name, x.complete, x.bound, x.refusal, x.unwind_is_obligation, x.timeout, x.tier, x.covers) for x in hs]).encode())
    h.update(('%s|%s|%s' % (unit, tier, REPO)).encode())
    return h.hexdigest()[:24]


def check_unit(unit, harnesses, tier='quick', jobs=8, do_playback=True):
    """results of a PASSING unit are memoised under a hash of everything the verdict depends on (all of /repo/src, Cargo.toml/lock,
    /verif/hooks, /verif/spec, the harness list and tier): the same unit serves several properties and CBMC is deterministic, so
    re-running it on byte-identical input only costs time. Any edit to the tree changes the hash. VERIF_NOCACHE=1 disables it."""
    hs0 = [h for h in harnesses if tier == 'thorough' or h.tier == 'quick']
    key = _tree_hash(unit, hs0, tier)
    cdir = os.path.join(BUILD, 'cache')
    cfile = os.path.join(cdir, '%s-%s.json' % (unit.replace('-', '_'), key))
    if not os.environ.get('VERIF_NOCACHE') and os.path.exists(cfile) and time.time() - os.path.getmtime(cfile) < 6 * 3600:
        try:
            r = json.load(open(cfile))
            r['notes'] = list(r.get('notes', [])) + ['memoised result for byte-identical inputs (tree hash %s), first computed %s' % (key, time.strftime('%Y-%m-%d %H:%M:%S', time.gmtime(os.path.getmtime(cfile))))]
            r['memoised'] = True
            return r
        except Exception:
            pass
    r = _check_unit(unit, harnesses, tier, jobs, do_playback)
    if r['status'] == 'ok':
        os.makedirs(cdir, exist_ok=True)
        json.dump(r, open(cfile, 'w'))
    return r


def _check_unit(unit, harnesses, tier='quick', jobs=8, do_playback=True):
    hs = [h for h in harnesses if tier == 'thorough' or h.tier == 'quick']
    res = {'unit': unit, 'engine': 'kani 0.68.0 / cbmc 6.11.0 (cadical) on the real crate', 'status': 'undecided',
           'failures': [], 'obligations': 0, 'discharged': 0, 'bounded_obligations': 0, 'bounded_discharged': 0,
           'functions': [], 'harnesses': [], 'bounded': [], 'complete': [], 'trusted': [], 'solver_s': 0.0, 'wall_s': 0.0,
           'notes': [], 'samples': [], 'covers': {'total': 0, 'satisfied': 0}}
    if not hs:
        res['notes'].append('no harness selected')
        return res
    tmax = max(int(h.timeout.rstrip('m')) for h in hs)
    r = run_kani(unit, hs, jobs=jobs, timeout='%dm' % tmax)
    res['wall_s'] = r['wall_s']
    res['checker_cmd'] = r['cmd']
    js = r['json']
    if js is None:
        res['notes'].append('cargo kani produced no JSON export (build failure?) rc=%s: undecided\n%s' % (r['rc'], (r['stdout'] + r['stderr'])[-3000:]))
        return res
    by = {x['harness_id']: x for x in js['verification_results']['results']}
    undecided = False
    for h in hs:
        for f in h.functions:
            if f not in res['functions']:
                res['functions'].append(f)
        x = by.get(h.name)
        hrec = {'harness': h.name, 'complete': h.complete, 'bound': h.bound, 'refusal': h.refusal}
        if x is None:
            res['notes'].append('harness %s: no result (not found in the crate, or its batch produced no export): undecided' % h.name)
            undecided = True
            continue
        checks = x.get('checks', [])
        hrec['duration_s'] = x.get('duration_ms', 0) / 1000.0
        res['solver_s'] += hrec['duration_s']
        if not checks:
            res['notes'].append('harness %s: no verdict (timeout / out of memory / CBMC error): undecided' % h.name)
            hrec['verdict'] = 'undecided'
            res['harnesses'].append(hrec)
            undecided = True
            continue
        n_ob = 0
        n_ok = 0
        fails = []
        unwind_fail = False
        cover_tot = cover_sat = 0
        for c in checks:
            st = (c.get('status') or '').upper()
            desc = c.get('description') or ''
            cat = c.get('category') or ''
            loc = c.get('location') or {}
            if cat == 'cover' or st in ('SATISFIED', 'UNSATISFIABLE'):
                cover_tot += 1
                if st == 'SATISFIED':
                    cover_sat += 1
                continue
            if 'unwinding assertion' in desc or cat == 'unwind':
                n_ob += 1
                if st == 'FAILURE':
                    unwind_fail = True
                    if h.unwind_is_obligation:
                        fails.append(c)
                else:
                    n_ok += 1
                continue
            n_ob += 1
            if st in ('SUCCESS', 'UNREACHABLE'):
                n_ok += 1
            elif st == 'FAILURE':
                is_marker = 'MARKER' in desc
                in_repo = not str(loc.get('file', '')).startswith('/verif') and 'verif/hooks' not in str(loc.get('file', ''))
                if h.refusal and not is_marker and in_repo and cat == 'assertion':
                    n_ok += 1  # the specified refusal (panic) of the function under contract
                    hrec.setdefault('refusals', []).append('%s @%s:%s' % (desc, loc.get('file'), loc.get('line')))
                else:
                    fails.append(c)
            else:  # UNDETERMINED etc.
                hrec.setdefault('undetermined', 0)
                hrec['undetermined'] += 1
        if unwind_fail and not h.unwind_is_obligation:
            res['notes'].append('harness %s: unwinding assertion failed (bound too small for this tree): undecided' % h.name)
            undecided = True
        if hrec.get('undetermined') and not fails:
            res['notes'].append('harness %s: %d undetermined checks: undecided' % (h.name, hrec['undetermined']))
            undecided = True
        res['covers']['total'] += cover_tot
        res['covers']['satisfied'] += cover_sat
        if h.covers and not fails and cover_sat < cover_tot:
            res['notes'].append('harness %s: cover not satisfied (vacuous assumptions): void' % h.name)
            undecided = True
        if h.covers and not h.refusal and cover_tot == 0 and not fails:
            res['notes'].append('harness %s: no cover statement found: void' % h.name)
            undecided = True
        hrec['checks'] = n_ob
        hrec['passed'] = n_ok
        hrec['verdict'] = 'fail' if fails else 'pass'
        if h.complete:
            res['obligations'] += n_ob
            res['discharged'] += n_ok
            res['complete'].append(h.name)
        else:
            res['bounded_obligations'] += n_ob
            res['bounded_discharged'] += n_ok
            res['bounded'].append('%s [bounded: %s]' % (h.name, h.bound))
        res['harnesses'].append(hrec)
        for c in fails:
            loc = c.get('location') or {}
            f = {'engine': 'kani', 'unit': unit, 'harness': h.name, 'kind': c.get('category'),
                 'function': c.get('function'),
                 'obligation': '%s  [%s:%s in %s] (harness %s)' % (c.get('description'), loc.get('file'), loc.get('line'), c.get('function'), h.name.split('::')[-1]),
                 'description': c.get('description'), 'bounded': not h.complete,
                 'verifier_output': json.dumps(c)}
            res['failures'].append(f)
    if len(res['harnesses']) > 0:
        res['samples'] = [{'harness': x['harness'], 'checks': x.get('checks'), 'verdict': x.get('verdict')} for x in res['harnesses'][:4]]
    if res['failures']:
        res['status'] = 'violation'
        if do_playback:
            done = set()
            for f in res['failures']:
                if f['harness'] in done:
                    continue
                done.add(f['harness'])
                pb = playback(f['harness'], f.get('description'))
                for g in res['failures']:
                    if g['harness'] == f['harness']:
                        g['playback'] = pb
    elif undecided:
        res['status'] = 'undecided'
    elif res['obligations'] + res['bounded_obligations'] == 0:
        res['notes'].append('zero obligations: void')
    else:
        res['status'] = 'ok'
    return res
