"""native witness finders (/verif/replay): built against /repo's working tree with the hooks on"""
import os, subprocess
REPO = os.environ.get('VERIF_REPO', '/repo')
BUILD = os.environ.get('VERIF_BUILD', '/verif/.build')


def build():
    d = os.path.join(BUILD, 'replay')
    os.makedirs(os.path.join(d, 'src'), exist_ok=True)
    open(os.path.join(d, 'Cargo.toml'), 'w').write(open('/verif/replay/Cargo.toml.in').read().replace('@REPO@', REPO))
    src = open('/verif/replay/src/main.rs').read()
    open(os.path.join(d, 'src', 'main.rs'), 'w').write(src)
    env = dict(os.environ)
    env['RUSTFLAGS'] = '--cfg cberner_raptorq_verif'
    env['CARGO_NET_OFFLINE'] = 'true'
    p = subprocess.run(['cargo', 'build', '--offline', '--release', '--manifest-path', os.path.join(d, 'Cargo.toml'), '--target-dir', os.path.join(BUILD, 'replay_target')],
                       capture_output=True, text=True, env=env)
    if p.returncode != 0:
        return None, p.stderr[-3000:]
    return os.path.join(BUILD, 'replay_target', 'release', 'verif_replay'), ''


def run(args, timeout=600):
    exe, err = build()
    if exe is None:
        return {'status': 'build-failed', 'output': err}
    p = subprocess.run([exe] + [str(a) for a in args], capture_output=True, text=True, timeout=timeout)
    return {'status': 'witness' if p.returncode == 1 else ('none' if p.returncode == 0 else 'error'), 'output': (p.stdout + p.stderr)[-4000:], 'rc': p.returncode}
