"""Mechanical extraction of Rust items from /repo/src text (rustfmt-formatted) and the closed list of
rewrite rules of DESIGN.md section 3.  Pure text; no hand-written look-alikes: bodies are copied byte for
byte except where a named rule fires, and every rule that fires is logged."""
import re


class ExtractError(Exception):
    """lost anchor / unmatched rule pattern: tooling failure (exit 2), never a violation"""


def _skip_trivia(s, i):
    """if s[i:] starts a comment/string/char literal return index just past it, else None"""
    c = s[i]
    if c == '/' and i + 1 < len(s):
        if s[i + 1] == '/':
            j = s.find('\n', i)
            return len(s) if j < 0 else j
        if s[i + 1] == '*':
            depth, j = 1, i + 2
            while j < len(s) and depth:
                if s.startswith('/*', j):
                    depth += 1; j += 2
                elif s.startswith('*/', j):
                    depth -= 1; j += 2
                else:
                    j += 1
            return j
    if c == '"':
        j = i + 1
        while j < len(s):
            if s[j] == '\\':
                j += 2
            elif s[j] == '"':
                return j + 1
            else:
                j += 1
        return j
    if c == 'r' and re.match(r'r#*"', s[i:i + 8]) and (i == 0 or not (s[i - 1].isalnum() or s[i - 1] == '_')):
        m = re.match(r'r(#*)"', s[i:])
        end = s.find('"' + m.group(1), i + len(m.group(0)))
        return len(s) if end < 0 else end + 1 + len(m.group(1))
    if c == "'":
        # char literal or lifetime
        m = re.match(r"'(\\.[^']*|[^\\'])'", s[i:])
        if m:
            return i + len(m.group(0))
        return i + 1
    return None


def match_close(s, i, open_ch='{', close_ch='}'):
    """s[i] == open_ch; return index of the matching close_ch"""
    assert s[i] == open_ch, (s[i:i + 20], open_ch)
    depth = 0
    j = i
    while j < len(s):
        k = _skip_trivia(s, j)
        if k is not None:
            j = k
            continue
        if s[j] == open_ch:
            depth += 1
        elif s[j] == close_ch:
            depth -= 1
            if depth == 0:
                return j
        j += 1
    raise ExtractError('unbalanced %s at %d' % (open_ch, i))


def find_top(s, pat, start=0, end=None, depth0_of='{(['):
    """first regex match of pat in s[start:end] outside comments/strings and at bracket depth 0"""
    end = len(s) if end is None else end
    rx = re.compile(pat)
    depth = 0
    j = start
    while j < end:
        k = _skip_trivia(s, j)
        if k is not None:
            j = k
            continue
        c = s[j]
        if depth == 0:
            m = rx.match(s, j)
            if m and m.end() <= end:
                return m
        if c in '{([':
            depth += 1
        elif c in '})]':
            depth -= 1
        j += 1
    return None


def line_of(s, idx):
    return s.count('\n', 0, idx) + 1


def strip_comments(s):
    out = []
    j = 0
    while j < len(s):
        if s.startswith('//', j):
            k = s.find('\n', j)
            j = len(s) if k < 0 else k
            continue
        if s.startswith('/*', j):
            j = _skip_trivia(s, j)
            continue
        k = _skip_trivia(s, j)
        if k is not None:
            out.append(s[j:k]); j = k
            continue
        out.append(s[j]); j += 1
    return ''.join(out)


class Item:
    def __init__(self, kind, name, file, line, attrs, sig, body, full):
        self.kind, self.name, self.file, self.line = kind, name, file, line
        self.attrs, self.sig, self.body, self.full = attrs, sig, body, full
        self.rules = []  # names of the rewrite rules that fired


def _impl_region(src, impl_pat):
    """impl_pat: text that must appear in the impl header, e.g. 'impl ObjectTransmissionInformation' or
    "impl<'b> Mul<&'b Octet> for &Octet" ; returns (start_of_body_idx, end_idx)"""
    rx = re.compile(r'^' + re.escape(impl_pat) + r'\s*(where[^{]*)?\{', re.M)
    m = rx.search(src)
    if not m:
        raise ExtractError('lost anchor: impl header %r' % impl_pat)
    ob = m.end() - 1
    return ob + 1, match_close(src, ob)


def find_fn(src, name, impl=None, file='?', nth=0):
    """locate `fn name` (inside `impl ... {}` when impl is given). Returns Item(kind='fn')."""
    lo, hi = (0, len(src)) if impl is None else _impl_region(src, impl)
    rx = re.compile(r'^[ \t]*((?:pub(?:\([a-z]+\))?\s+)?(?:const\s+)?(?:unsafe\s+)?fn\s+' + re.escape(name) + r'\b)', re.M)
    pos = lo
    found = []
    while True:
        m = rx.search(src, pos, hi)
        if not m:
            break
        found.append(m)
        pos = m.end()
    if impl is None:
        # top-level only: zero indentation
        found = [m for m in found if src[m.start():m.start(1)] == '']
    if len(found) <= nth:
        raise ExtractError('lost anchor: fn %s%s in %s' % ((impl + '::') if impl else '', name, file))
    m = found[nth]
    sig_start = m.start(1)
    # the body brace: first '{' at depth 0 (parens/angle brackets of generics contain no braces in this code base)
    mb = find_top(src, r'\{', m.end(), hi, )
    if not mb:
        raise ExtractError('no body for fn %s' % name)
    ob = mb.start()
    cb = match_close(src, ob)
    # attributes / doc comments immediately above
    ls = src.rfind('\n', 0, m.start()) + 1
    attrs = []
    k = ls
    while True:
        pl = src.rfind('\n', 0, k - 1) + 1
        line = src[pl:k - 1].strip() if k > 0 else ''
        if k > 0 and (line.startswith('#[') or line.startswith('///') or line.startswith('//')):
            attrs.insert(0, line)
            k = pl
        else:
            break
    sig = src[sig_start:ob].rstrip()
    body = src[ob:cb + 1]
    return Item('fn', name, file, line_of(src, m.start()), attrs, sig, body, src[ls:cb + 1])


def find_const(src, name, file='?'):
    rx = re.compile(r'^[ \t]*((?:pub(?:\([a-z]+\))?\s+)?(?:const|static)\s+' + re.escape(name) + r'\s*:)', re.M)
    m = rx.search(src)
    if not m:
        raise ExtractError('lost anchor: const %s in %s' % (name, file))
    me = find_top(src, r';', m.end())
    full = src[m.start(1):me.end()]
    return Item('const', name, file, line_of(src, m.start()), [], full, '', full)


def find_struct(src, name, file='?', kind='struct'):
    rx = re.compile(r'^((?:pub(?:\([a-z]+\))?\s+)?' + kind + r'\s+' + re.escape(name) + r'\b[^{;]*)\{', re.M)
    m = rx.search(src)
    if not m:
        raise ExtractError('lost anchor: %s %s in %s' % (kind, name, file))
    ob = m.end() - 1
    cb = match_close(src, ob)
    full = src[m.start():cb + 1]
    return Item(kind, name, file, line_of(src, m.start()), [], m.group(1), src[ob:cb + 1], full)


# --------------------------------------------------------------------------------------------
# generic clean-ups (dropped constructs, DESIGN.md section 3 "Dropped")

def drop_visibility(text):
    return re.sub(r'\bpub(\((crate|super|self)\))?\s+', '', text)


def drop_attrs_in_body(text):
    # statement-level #[allow(..)] / #[inline] attributes
    return re.sub(r'^[ \t]*#\[(allow|inline|rustfmt|cfg_attr)[^\]]*\]\s*\n', '', text, flags=re.M)


# --------------------------------------------------------------------------------------------
# loops

_LOOP_RX = re.compile(r'\b(for|while|loop)\b')


def find_loops(body):
    """list of (kw_idx, open_brace_idx, close_brace_idx) for every loop in body, in source order"""
    out = []
    j = 0
    while j < len(body):
        k = _skip_trivia(body, j)
        if k is not None:
            j = k
            continue
        m = _LOOP_RX.match(body, j)
        if m and (j == 0 or not (body[j - 1].isalnum() or body[j - 1] == '_')):
            kw = m.group(1)
            if kw == 'for' and re.match(r'for\s*<', body[j:]):
                j = m.end(); continue  # HRTB
            # header runs to first '{' at paren depth 0
            mb = find_top(body, r'\{', m.end(), None)
            if mb:
                ob = mb.start()
                out.append((j, ob, match_close(body, ob)))
            j = m.end()
            continue
        j += 1
    return out


def annotate_loops(body, loops_spec, fname):
    """loops_spec: {ordinal: 'invariant ..., decreases ...' text}. Inserted between loop header and '{'."""
    loops = find_loops(body)
    for ordn in loops_spec:
        if ordn >= len(loops):
            raise ExtractError('lost anchor: loop #%d in %s (found %d loops)' % (ordn, fname, len(loops)))
    # every insertion is computed against the ORIGINAL text and applied from the last position to the first, so that
    # nested annotated loops cannot invalidate each other's offsets
    orig = body
    ins = []   # (pos, seq, replace_len, text)
    seq = 0
    for ordn in sorted(loops_spec):
        kw, ob, cb = loops[ordn]
        spec = loops_spec[ordn]
        # conditional clauses `[?name: text ?]` are kept only when the local `name` occurs in the function body, so that
        # invariants about incidental temporaries do not turn a refactoring into a front-end error
        def _cond(txt):
            def rep(m):
                return m.group(2) if re.search(r'\b' + re.escape(m.group(1)) + r'\b', orig) else ''
            return re.sub(r'\[\?(\w+):(.*?)\?\]', rep, txt, flags=re.S)
        if isinstance(spec, dict):
            spec = {k: _cond(v) for k, v in spec.items()}
            pre = spec.get('spec', '')
            top = spec.get('body_top', '')
            bot = spec.get('body_bottom', '')
            after = spec.get('after', '')
            if spec.get('before'):
                ls = orig.rfind('\n', 0, kw) + 1
                ins.append((ls, seq, 0, spec['before'] + '\n')); seq += 1
            ins.append((ob, seq, 1, '\n' + pre + '\n{' + ('\n' + top + '\n' if top else ''))); seq += 1
            if bot:
                ins.append((cb, seq, 0, '\n' + bot + '\n')); seq += 1
            if after:
                ins.append((cb + 1, seq, 0, '\n' + after + '\n')); seq += 1
        else:
            spec = _cond(spec)
            ins.append((ob, seq, 0, '\n' + spec + '\n')); seq += 1
    for pos, _s, rl, text in sorted(ins, key=lambda t: (t[0], t[1]), reverse=True):
        body = body[:pos] + text + body[pos + rl:]
    return body


def insert_at(body, anchor, where, text, fname):
    """insert `text` on its own line before/after the unique line containing `anchor`"""
    idxs = [m.start() for m in re.finditer(re.escape(anchor), body)]
    if len(idxs) != 1:
        raise ExtractError('lost anchor: %r occurs %d times in %s' % (anchor, len(idxs), fname))
    i = idxs[0]
    if where == 'before':
        ls = body.rfind('\n', 0, i) + 1
        return body[:ls] + text + '\n' + body[ls:]
    elif where == 'after':
        le = body.find('\n', i)
        le = len(body) if le < 0 else le
        return body[:le + 1] + text + '\n' + body[le + 1:]
    elif where == 'replace':
        return body[:i] + text + body[i + len(anchor):]
    raise ValueError(where)


# --------------------------------------------------------------------------------------------
# rewrite rules (DESIGN.md section 3).  Each returns (new_text, fired_count)

def rule_U1(text):
    """unsafe { *X.get_unchecked(i) } -> X[i]   (and get_unchecked_mut)"""
    n = 0

    def rep(m):
        nonlocal n
        n += 1
        return '%s[%s]' % (m.group(1), m.group(3))
    # *X.get_unchecked(EXPR)  with balanced parens in EXPR (one level)
    rx = re.compile(r'\*([A-Za-z_][A-Za-z0-9_\.]*)\.get_unchecked(_mut)?\(((?:[^()]|\([^()]*\))*)\)')
    text = rx.sub(rep, text)
    return text, n


def rule_unsafe_block(text):
    """`unsafe {` -> `{` once U1 has removed the unchecked operations inside (Verus has no unsafe blocks)"""
    n = len(re.findall(r'\bunsafe\s*\{', text))
    return re.sub(r'\bunsafe\s*\{', '{', text), n


def rule_D1(text):
    """for (I, X) in E.iter().enumerate() {  ->  for I in 0..E.len() { let X = &E[I];"""
    n = 0

    def rep(m):
        nonlocal n
        n += 1
        if m.group(2):   # pattern `&X` on a slice of Copy values: X = E[I]
            return 'for %s in 0..%s.len() {\n let %s = %s[%s];' % (m.group(1), m.group(4), m.group(3), m.group(4), m.group(1))
        return 'for %s in 0..%s.len() {\n let %s = &%s[%s];' % (m.group(1), m.group(4), m.group(3), m.group(4), m.group(1))
    rx = re.compile(r'for \((\w+), (&?)(\w+)\) in ([\w\.]+)\.iter\(\)\.enumerate\(\) \{')
    return rx.sub(rep, text), n


def rule_D3_tuple(text):
    """for &(a, _, .., _) in T.iter().rev() { B }  ->  reverse index loop (Copy tuples)"""
    rx = re.compile(r'for &\(([^)]*)\) in ([\w\.]+)\.iter\(\)\.rev\(\) \{')
    n = 0
    while True:
        m = rx.search(text)
        if not m:
            break
        n += 1
        ob = m.end() - 1
        cb = match_close(text, ob)
        pat, e = m.group(1), m.group(2)
        inner = text[ob + 1:cb]
        new = ('let mut verif_k: usize = %s.len();\nwhile verif_k > 0 {\n verif_k -= 1;\n let (%s) = %s[verif_k];' % (e, pat, e)) + inner + '}'
        text = text[:m.start()] + new + text[cb + 1:]
    return text, n


def rule_D3_fwd_tuple(text):
    """for &(a, _, ..) in T.iter() { B }  ->  for k in 0..T.len() { let (a, _, ..) = T[k]; B }"""
    n = 0

    def rep(m):
        nonlocal n
        n += 1
        return 'for verif_k in 0..%s.len() {\n let (%s) = %s[verif_k];' % (m.group(2), m.group(1), m.group(2))
    rx = re.compile(r'for &\(([^)]*)\) in ([\w\.]+)\.iter\(\) \{')
    return rx.sub(rep, text), n


def rule_D6(text):
    """for I in A..=B { BODY }  ->  let mut I = A; while I <= B { BODY; I += 1; }
    (valid when BODY has no `continue` and B + 1 does not overflow: the latter becomes an overflow obligation)"""
    rx = re.compile(r'for (\w+) in ([\w\.]+)\.\.=([\w\.]+) \{')
    n = 0
    while True:
        m = rx.search(text)
        if not m:
            break
        ob = m.end() - 1
        cb = match_close(text, ob)
        inner = text[ob + 1:cb]
        if re.search(r'\bcontinue\b', inner):
            raise ExtractError('rule D6: loop body contains continue')
        n += 1
        new = 'let mut %s = %s;\nwhile %s <= %s {' % (m.group(1), m.group(2), m.group(1), m.group(3)) + inner + ' %s += 1;\n}' % m.group(1)
        text = text[:m.start()] + new + text[cb + 1:]
    return text, n


def rule_D2(text):
    """for X in E.iter().flatten() { B } -> for k in 0..E.len() { if let Some(X) = &E[k] { B } }"""
    rx = re.compile(r'for (\w+) in ([\w\.]+)\.iter\(\)\.flatten\(\) \{')
    n = 0
    while True:
        m = rx.search(text)
        if not m:
            break
        n += 1
        ob = m.end() - 1
        cb = match_close(text, ob)
        inner = text[ob + 1:cb]
        new = 'for verif_k in 0..%s.len() {\n if let Some(%s) = &%s[verif_k] {' % (m.group(2), m.group(1), m.group(2)) + inner + '}\n}'
        text = text[:m.start()] + new + text[cb + 1:]
    return text, n


def rule_D4(text):
    """if A\n && let P = E\n { B }  ->  if A { if let P = E { B } }   (no else branch)"""
    rx = re.compile(r'if ([^{};]*?)\s*&& let ([^=]+?) = ([^{};]*?)\s*\{')
    n = 0
    while True:
        m = rx.search(text)
        if not m:
            break
        n += 1
        ob = m.end() - 1
        cb = match_close(text, ob)
        if re.match(r'\s*else\b', text[cb + 1:]):
            raise ExtractError('rule D4: let-chain with else branch')
        inner = text[ob + 1:cb]
        new = 'if %s {\n if let %s = %s {' % (m.group(1).strip(), m.group(2).strip(), m.group(3).strip()) + inner + '}\n}'
        text = text[:m.start()] + new + text[cb + 1:]
    return text, n


def rule_A1(text):
    """assert!(c) / assert_eq!(a,b) / assert_ne! / debug_assert* -> assert(c) proof obligations
    (Verus `assert(c)`: must be proved from the function's precondition: no-panic obligation)"""
    n = 0
    out = []
    j = 0
    rx = re.compile(r'\b(debug_)?assert(_eq|_ne)?!\(')
    while True:
        m = rx.search(text, j)
        if not m:
            out.append(text[j:])
            break
        op = m.end() - 1
        cp = match_close(text, op, '(', ')')
        args = text[op + 1:cp]
        parts = split_top_commas(args)
        if m.group(2) == '_eq':
            cond = '(%s) == (%s)' % (parts[0].strip(), parts[1].strip())
        elif m.group(2) == '_ne':
            cond = '(%s) != (%s)' % (parts[0].strip(), parts[1].strip())
        else:
            cond = parts[0].strip()
        out.append(text[j:m.start()])
        # the condition is evaluated in exec mode (its own overflow/bounds obligations included), then must be proved
        n += 1
        out.append('let verif_cond_%d: bool = %s; assert(verif_cond_%d);' % (n, cond, n))
        j = cp + 1
        if text[j:j + 1] == ';':
            j += 1
    return ''.join(out), n


def split_top_commas(s):
    parts, depth, cur = [], 0, []
    j = 0
    while j < len(s):
        k = _skip_trivia(s, j)
        if k is not None:
            cur.append(s[j:k]); j = k
            continue
        c = s[j]
        if c in '([{':
            depth += 1
        elif c in ')]}':
            depth -= 1
        if c == ',' and depth == 0:
            parts.append(''.join(cur)); cur = []
        else:
            cur.append(c)
        j += 1
    if ''.join(cur).strip():
        parts.append(''.join(cur))
    return parts


def rule_A2(body):
    """panic-as-result (unit V-OTI only): assert!(c); -> if !(c) { return None; } ; tail expr wrapped in Some()."""
    n = 0
    out = []
    j = 0
    rx = re.compile(r'\bassert(_eq|_ne)?!\(')
    while True:
        m = rx.search(body, j)
        if not m:
            out.append(body[j:])
            break
        op = m.end() - 1
        cp = match_close(body, op, '(', ')')
        parts = split_top_commas(body[op + 1:cp])
        if m.group(1) == '_eq':
            cond = '(%s) == (%s)' % (parts[0].strip(), parts[1].strip())
        elif m.group(1) == '_ne':
            cond = '(%s) != (%s)' % (parts[0].strip(), parts[1].strip())
        else:
            cond = parts[0].strip()
        semi = cp + 1
        assert body[semi] == ';', body[semi:semi + 10]
        out.append(body[j:m.start()])
        out.append('if !(%s) { return None; }' % cond)
        n += 1
        j = semi + 1
    return ''.join(out), n


def wrap_tail_some(body):
    """wrap the tail expression of a fn body `{ ...; EXPR }` in Some(..). Tail = text after the last top-level
    `;` or `}`-terminated statement. Works for struct-literal tails used in this code base."""
    assert body[0] == '{' and body[-1] == '}'
    inner = body[1:-1]
    # find last top-level ';'
    last = -1
    depth = 0
    j = 0
    while j < len(inner):
        k = _skip_trivia(inner, j)
        if k is not None:
            j = k
            continue
        c = inner[j]
        if c in '([{':
            depth += 1
        elif c in ')]}':
            depth -= 1
            if depth == 0 and c == '}':
                # a block statement end (if .. {}), candidate separator if followed by newline+non-else
                rest = inner[j + 1:]
                if re.match(r'\s*\n', rest) and not re.match(r'\s*else\b', rest) and rest.strip():
                    last = j
        elif c == ';' and depth == 0:
            last = j
        j += 1
    tail = inner[last + 1:]
    if not tail.strip():
        raise ExtractError('wrap_tail_some: no tail expression')
    return '{' + inner[:last + 1] + '\nSome(' + tail.strip() + ')\n}'


def split_first_for(body):
    """rule D5: body = `{ for PAT in ITER { B } REST }` -> (PAT, ITER, '{ B }', '{ REST }').
    The loop must be the first statement of the function body."""
    assert body[0] == '{' and body[-1] == '}'
    m = re.match(r'\{\s*for (\w+) in (\w+) \{', body)
    if not m:
        raise ExtractError('rule D5: function body does not start with `for X in ITER {`')
    ob = m.end() - 1
    cb = match_close(body, ob)
    return m.group(1), m.group(2), body[ob:cb + 1], '{' + body[cb + 1:-1] + '}'


def rule_U2(text):
    """unsafe { let ptr = V.as_mut_ptr(); let A = from_raw_parts_mut(ptr.add(E1), E2); let B = from_raw_parts(ptr.add(E3), E4); (A, B) }
    -> verif_two_ranges(&mut V, E1, E2, E3, E4): a trusted primitive whose PRECONDITION is the safety condition of the two
    slice::from_raw_parts* calls (both ranges inside the allocation, mutable range disjoint from the shared one)."""
    m = re.search(r'unsafe \{', text)
    if not m:
        return text, 0
    ob = m.end() - 1
    cb = match_close(text, ob)
    blk = text[ob + 1:cb]
    mv = re.search(r'let (\w+) = ([\w\.]+)\.as_mut_ptr\(\);', blk)
    m1 = re.search(r'let (\w+) = core::slice::from_raw_parts_mut\((\w+)\.add\(([^()]*(?:\([^()]*\))?[^()]*)\), ([^;]*)\);', blk)
    m2 = re.search(r'let (\w+) = core::slice::from_raw_parts\((\w+)\.add\(([^()]*(?:\([^()]*\))?[^()]*)\), ([^;]*)\);', blk)
    mt = re.search(r'\((\w+), (\w+)\)\s*$', blk.strip())
    if not (mv and m1 and m2 and mt) or m1.group(2) != mv.group(1) or m2.group(2) != mv.group(1) or mt.group(1) != m1.group(1) or mt.group(2) != m2.group(1):
        raise ExtractError('rule U2: unsafe block does not have the two-range from_raw_parts shape')
    new = 'verif_two_ranges(&mut %s, %s, %s, %s, %s)' % (mv.group(2), m1.group(3).strip(), m1.group(4).strip(), m2.group(3).strip(), m2.group(4).strip())
    return text[:m.start()] + new + text[cb + 1:], 1


def rule_D7(text):
    """for X in E {  (E: &[T] / &Vec<T>)  ->  for X in E.iter() {     (std: IntoIterator for &[T] is iter())"""
    n = 0

    def rep(mm):
        nonlocal n
        n += 1
        return 'for %s in %s.iter() {' % (mm.group(1), mm.group(2))
    return re.sub(r'for (\w+) in (\w+) \{', rep, text), n


def inline_closure_call(body, callee):
    """rule I1: `CALLEE(arg1, .., |x| { CB });` in `body` is replaced by the callee's own body (taken from the repository on this run)
    with its parameters bound by `let`s and every call `f(E);` of the closure parameter replaced by `{ let x = E; CB }` -- beta
    reduction of a generic function applied to a closure literal.  Refused (ExtractError) when the callee returns early, uses its
    closure other than by direct call statements, or when a callee local would capture a name used in the closure body."""
    name = callee.name
    m = re.search(r'\b' + re.escape(name) + r'\(', body)
    if not m:
        raise ExtractError('lost anchor: call of %s' % name)
    op = m.end() - 1
    cp = match_close(body, op, '(', ')')
    args = [a.strip() for a in split_top_commas(body[op + 1:cp])]
    end = cp + 1
    if body[end:end + 1] == ';':
        end += 1
    # callee parameters
    k0 = callee.sig.index(name) + len(name)
    if callee.sig[k0:k0 + 1] == '<':
        k0 = match_close(callee.sig, k0, '<', '>') + 1
    so = callee.sig.index('(', k0)
    sc = match_close(callee.sig, so, '(', ')')
    params = []
    for prm in split_top_commas(callee.sig[so + 1:sc]):
        pn = prm.split(':', 1)[0].strip()
        params.append(re.sub(r'^mut\s+', '', pn))
    if len(params) != len(args):
        raise ExtractError('unsupported construct: %s called with %d arguments, declared with %d' % (name, len(args), len(params)))
    mc = re.match(r'\|(\w+)\|\s*\{', args[-1])
    if not mc:
        raise ExtractError('unsupported construct: last argument of %s is not a closure literal |x| { .. }' % name)
    cvar = mc.group(1)
    cob = args[-1].index('{')
    ccb = match_close(args[-1], cob, '{', '}')
    cbody = args[-1][cob + 1:ccb]
    fpar = params[-1]
    cal = strip_comments(callee.body)
    cal = drop_attrs_in_body(cal)
    inner = cal[cal.index('{') + 1:cal.rindex('}')]
    if re.search(r'\breturn\b', inner):
        raise ExtractError('unsupported construct: %s returns early, cannot be inlined' % name)
    ncalls = len(re.findall(r'\b' + re.escape(fpar) + r'\(', inner))
    nuses = len(re.findall(r'\b' + re.escape(fpar) + r'\b', inner))
    if ncalls == 0 or nuses != ncalls:
        raise ExtractError('unsupported construct: %s uses its closure parameter other than by direct calls' % name)
    locs = set(re.findall(r'\blet\s+(?:mut\s+)?(\w+)', inner))
    for t in re.findall(r'let\s*\(([^)]*)\)', inner):
        for x in t.split(','):
            locs.add(re.sub(r'^mut\s+', '', x.strip()))
    locs |= set(params[:-1])
    used = set(re.findall(r'\b[A-Za-z_]\w*\b', cbody)) - {cvar}
    clash = sorted(n for n in (locs & used) if n)
    if clash:
        raise ExtractError('unsupported construct: inlining %s would capture %s' % (name, clash))
    out = []
    j = 0
    rx = re.compile(r'\b' + re.escape(fpar) + r'\(')
    while True:
        mm = rx.search(inner, j)
        if not mm:
            out.append(inner[j:])
            break
        o2 = mm.end() - 1
        c2 = match_close(inner, o2, '(', ')')
        out.append(inner[j:mm.start()])
        # (a bare block right after a loop body is ambiguous for the Verus parser: bind the unit result)
        out.append('let verif_app_%d: () = { let %s = %s; %s };' % (len(out), cvar, inner[o2 + 1:c2].strip(), cbody.strip()))
        j = c2 + 1
        if inner[j:j + 1] == ';':
            j += 1
    binds = ' '.join('let %s = %s;' % (pn, a) for pn, a in zip(params[:-1], args[:-1]))
    return body[:m.start()] + '{ ' + binds + '\n' + ''.join(out) + '\n}' + body[end:], ncalls


def rule_C1(text):
    """statement-level `#[cfg(feature = "std")] { B }` -> `{ B }` ; `#[cfg(not(feature = "std"))] { B }` -> dropped
    (the units verify the configuration feature = "std", which is the crate's default and the one the pinned tests use)"""
    n = 0
    while True:
        m = re.search(r'#\[cfg\((not\()?feature = "std"\)?\)\]\s*\{', text)
        if not m:
            break
        ob = m.end() - 1
        cb = match_close(text, ob, '{', '}')
        if m.group(1):
            text = text[:m.start()] + text[cb + 1:]
        else:
            text = text[:m.start()] + text[ob:]
        n += 1
    return text, n


def rule_D10(text):
    """for X in (A..B).rev() {  ->  let mut verif_k = B; while verif_k > A { verif_k -= 1; let X = verif_k;
    (Rev over a Range yields B-1, B-2, ..., A; the upper bound is evaluated once, before the loop, as in the original)"""
    n = 0

    def rep(m):
        nonlocal n
        n += 1
        return 'let verif_lo = %s; let mut verif_k = %s;\n while verif_k > verif_lo {\n verif_k -= 1; let %s = verif_k;' % (m.group(2).strip(), m.group(3).strip(), m.group(1))
    return re.sub(r'for (\w+) in \(([^()]*(?:\([^()]*\)[^()]*)*?)\.\.([^()]*(?:\([^()]*\)[^()]*)*?)\)\.rev\(\) \{', rep, text), n


def rule_D11(text):
    """for (K, V) in E.keys_values() {  ->  for verif_q in 0..E.len() { let (K, V) = E.get_by_raw_index(verif_q);
    (SparseBinaryVec::keys_values() is `elements.iter().map(|e| (*e as usize, Octet::one()))` and get_by_raw_index(i) is
    `(elements[i] as usize, Octet::one())`: the i-th item of the former is the latter; both one-liners are in src/sparse_vec.rs)"""
    n = 0

    def rep(m):
        nonlocal n
        n += 1
        return 'for verif_q in 0..%s.len() {\n let (%s) = %s.get_by_raw_index(verif_q);' % (m.group(2), m.group(1), m.group(2))
    return re.sub(r'for \(([^)]*)\) in ((?:[^\s{]|\[[^\]]*\])+?)\.keys_values\(\) \{', rep, text), n


def rule_X1(text):
    """explicit slice iterators -> cursors:  `let mut IT = E.iter();` -> `let mut IT: usize = 0;` and `IT.next()` -> `verif_next_u16(&E, &mut IT)`
    (slice::Iter::next yields &E[0], &E[1], ... then None; the model function's contract says exactly that)"""
    n = 0
    its = {}
    for m in re.finditer(r'let mut (\w+) = ([\w\.]+)\.iter\(\);', text):
        its[m.group(1)] = m.group(2)
    for it, e in its.items():
        text, c1 = re.subn(r'let mut %s = %s\.iter\(\);' % (re.escape(it), re.escape(e)), 'let mut %s: usize = 0;' % it, text)
        text, c2 = re.subn(r'\b%s\.next\(\)' % re.escape(it), 'verif_next_u16(&%s, &mut %s)' % (e, it), text)
        n += c1 + c2
    return text, n


def rule_X2(text):
    """match A.cmp(B) { Ordering::Less => {X} Ordering::Equal => {Y} Ordering::Greater => {Z} }  ->  if *A < *B {X} else if *A == *B {Y} else {Z}
    (Ord::cmp on &u16 compares the pointees; the three arms are exhaustive)"""
    n = 0
    while True:
        m = re.search(r'match (\w+)\.cmp\((\w+)\) \{', text)
        if not m:
            break
        ob = m.end() - 1
        cb = match_close(text, ob, '{', '}')
        inner = text[ob + 1:cb]
        arms = {}
        for name in ('Less', 'Equal', 'Greater'):
            ma = re.search(r'Ordering::%s => \{' % name, inner)
            if not ma:
                raise ExtractError('unsupported construct: match on cmp without a block arm for Ordering::%s' % name)
            o2 = ma.end() - 1
            c2 = match_close(inner, o2, '{', '}')
            arms[name] = inner[o2:c2 + 1]
        a, b = m.group(1), m.group(2)
        text = text[:m.start()] + 'if *%s < *%s %s else if *%s == *%s %s else %s' % (a, b, arms['Less'], a, b, arms['Equal'], arms['Greater']) + text[cb + 1:]
        n += 1
    return text, n


def rule_D9(text):
    """(LO..HI).map(|X| BODY).collect()   ->   { let mut verif_out = Vec::new(); let verif_hi = HI; let mut verif_k = LO;
                                                 while verif_k < verif_hi { let X = verif_k; let verif_item = BODY; verif_out.push(verif_item); verif_k += 1; } verif_out }
    (Iterator::map on a Range applies the closure to LO, LO+1, ..., HI-1 in order; collect::<Vec<_>>() pushes the results in order)"""
    n = 0
    while True:
        m = re.search(r'\(((?:[^()]|\([^()]*\))*?)\.\.((?:[^()]|\([^()]*\))*?)\)\s*\.map\(\|(\w+)\|', text)
        if not m:
            break
        lo, hi, var = m.group(1).strip(), m.group(2).strip(), m.group(3)
        op = text.index('.map(', m.start()) + 4
        cp = match_close(text, op, '(', ')')
        body = text[m.end():cp].strip()
        mc = re.match(r'\s*\.collect\(\)', text[cp + 1:])
        if not mc:
            raise ExtractError('unsupported construct: (a..b).map(..) not followed by .collect()')
        rep = ('{ let mut verif_out = Vec::new(); let verif_hi = %s; let mut verif_k = %s;\n while verif_k < verif_hi {\n let %s = verif_k; let verif_item = %s;\n'
               ' verif_out.push(verif_item); verif_k += 1;\n }\n verif_out }') % (hi, lo, var, body)
        text = text[:m.start()] + rep + text[cp + 1 + mc.end():]
        n += 1
    return text, n


def rule_D8(text):
    """for X in &mut V { .. X.extend_from_slice(E) .. }  ->  for verif_i in 0..V.len() { .. verif_extend_at(&mut V, verif_i, E) .. }
    (IntoIterator for &mut Vec<T> yields &mut V[0], &mut V[1], ... in order; the only use of X allowed in the body is the
    receiver of extend_from_slice, whose std-documented effect is the contract of the model function verif_extend_at)"""
    n = 0
    while True:
        m = re.search(r'for (\w+) in &mut (\w+) \{', text)
        if not m:
            break
        x, v = m.group(1), m.group(2)
        ob = m.end() - 1
        cb = match_close(text, ob, '{', '}')
        inner = text[ob + 1:cb]
        uses = len(re.findall(r'\b' + re.escape(x) + r'\b', inner))
        calls = len(re.findall(r'\b' + re.escape(x) + r'\.extend_from_slice\(', inner))
        if uses != calls or calls == 0:
            raise ExtractError('unsupported construct: `for %s in &mut %s` body uses %s other than as receiver of extend_from_slice' % (x, v, x))
        inner = re.sub(r'\b' + re.escape(x) + r'\.extend_from_slice\(', 'verif_extend_at(&mut %s, verif_i, ' % v, inner)
        text = text[:m.start()] + 'for verif_i in 0..%s.len() {' % v + inner + text[cb:]
        n += 1
    return text, n


def rule_A3(body):
    """refusal-by-panic: `assert!(c);` -> `if !(c) { return verif_panic(); }` where verif_panic() models a panic (it never
    returns: `ensures false`). Used where the function must be SAFE for inputs it refuses, i.e. the asserts are its guard."""
    n = 0
    out = []
    j = 0
    rx = re.compile(r'\bassert(_eq|_ne)?!\(')
    while True:
        m = rx.search(body, j)
        if not m:
            out.append(body[j:])
            break
        op = m.end() - 1
        cp = match_close(body, op, '(', ')')
        parts = split_top_commas(body[op + 1:cp])
        if m.group(1) == '_eq':
            cond = '(%s) == (%s)' % (parts[0].strip(), parts[1].strip())
        elif m.group(1) == '_ne':
            cond = '(%s) != (%s)' % (parts[0].strip(), parts[1].strip())
        else:
            cond = parts[0].strip()
        semi = cp + 1
        out.append(body[j:m.start()])
        out.append('if !(%s) { return verif_panic(); }' % cond)
        n += 1
        j = semi + 1 if body[semi:semi + 1] == ';' else semi
    return ''.join(out), n


def rule_D1c(text):
    """for (I, (A, B)) in EXPR.drain(..).enumerate() {  ->  let verif_v = EXPR; for I in 0..verif_v.len() { let (A, B) = verif_v[I];
    (draining a temporary Vec of Copy tuples completely, in order, with its index)"""
    rx = re.compile(r'for \((\w+), \((\w+), (\w+)\)\) in (.+?)\.drain\(\.\.\)\.enumerate\(\) \{')
    m = rx.search(text)
    if not m:
        return text, 0
    ls = text.rfind('\n', 0, m.start()) + 1
    new = 'let verif_v = %s;\n' % m.group(4) + text[ls:m.start()] + 'for %s in 0..verif_v.len() {\n let (%s, %s) = verif_v[%s];' % (m.group(1), m.group(2), m.group(3), m.group(1))
    return text[:ls] + new + text[m.end():], 1


def split_top_and(s):
    parts, depth, cur = [], 0, []
    j = 0
    while j < len(s):
        k = _skip_trivia(s, j)
        if k is not None:
            cur.append(s[j:k]); j = k
            continue
        c = s[j]
        if c in '([{':
            depth += 1
        elif c in ')]}':
            depth -= 1
        if depth == 0 and s.startswith('&&', j):
            parts.append(''.join(cur)); cur = []
            j += 2
            continue
        cur.append(c)
        j += 1
    parts.append(''.join(cur))
    return [x.strip() for x in parts]


def rule_D4g(text):
    """general let-chain without else: `if C1 && let P = E && C3 { B }` -> `if C1 { if let P = E { if C3 { B } } }`
    (left-to-right short-circuit evaluation is exactly the nesting order)"""
    n = 0
    pos = 0
    while True:
        m = re.compile(r'\bif\s').search(text, pos)
        if not m:
            break
        mb = find_top(text, r'\{', m.end(), None)
        if not mb:
            break
        cond = text[m.end():mb.start()]
        if ' let ' not in (' ' + cond) or '&&' not in cond:
            pos = m.end()
            continue
        ob = mb.start()
        cb = match_close(text, ob)
        if re.match(r'\s*else\b', text[cb + 1:]):
            pos = m.end()
            continue
        parts = split_top_and(cond)
        if not any(p.startswith('let ') for p in parts):
            pos = m.end()
            continue
        inner = text[ob + 1:cb]
        head = ''.join(('if %s {\n' % p) for p in parts)
        new = head + inner + '}\n' * len(parts)
        text = text[:m.start()] + new + text[cb + 1:]
        n += 1
        pos = m.start() + len(head)
    return text, n
