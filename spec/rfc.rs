// Executable oracles transcribed from RFC 6330 (sections 5.3.5.1 - 5.3.5.4, 5.3.1, 4.4.1.2).
// All arithmetic in u64 so that the oracle cannot share the code's narrowing/overflow behaviour.
#![allow(dead_code, non_snake_case)]
use super::rfc_tables::*;

/// the 32-bit value V0[x0] ^ V1[x1] ^ V2[x2] ^ V3[x3] of Rand[y, i, m] (5.3.5.1); indices computed in u64
pub fn rand_raw_spec(y: u32, i: u32) -> u32 {
    let y = y as u64;
    let i = i as u64;
    let x0 = (y + i) % 256;
    let x1 = (y / 256 + i) % 256;
    let x2 = (y / 65536 + i) % 256;
    let x3 = (y / 16777216 + i) % 256;
    PIN_V0[x0 as usize] ^ PIN_V1[x1 as usize] ^ PIN_V2[x2 as usize] ^ PIN_V3[x3 as usize]
}

/// Rand[y, i, m] (5.3.5.1). The final reduction is the same machine operation as in the code on purpose:
/// two structurally different 32/64-bit modulo circuits make the SAT problem intractable, and `%` on an
/// in-range u32 is not where an implementation can deviate from the RFC.
pub fn rand_spec(y: u32, i: u32, m: u32) -> u32 {
    rand_raw_spec(y, i) % m
}

/// Deg[v] (5.3.5.2): d with f[d-1] <= v < f[d], capped at W-2
pub fn deg_spec(v: u32, w: u32) -> u32 {
    let mut d: usize = 1;
    while d < 31 {
        if PIN_DEG[d - 1] <= v && v < PIN_DEG[d] {
            let dd = d as u64;
            let cap = w as u64 - 2;
            return if dd < cap { dd as u32 } else { cap as u32 };
        }
        d += 1;
    }
    0 // v >= 2^20: outside the domain
}

/// Tuple[K', X] (5.3.5.4) for the table row `row` (K' = PIN_TABLE2[row].0)
pub fn tuple_spec(row: usize, x: u32) -> (u32, u32, u32, u32, u32, u32) {
    let (_kp, j, _s, _h, w) = PIN_TABLE2[row];
    let p1 = PIN_P1[row].1;
    let mut a_big: u64 = 53591 + (j as u64) * 997;
    if a_big % 2 == 0 {
        a_big += 1;
    }
    let b_big: u64 = 10267 * (j as u64 + 1);
    let y = ((b_big + (x as u64) * a_big) % 4294967296u64) as u32;
    let v = rand_spec(y, 0, 1048576);
    let d = deg_spec(v, w);
    let a = 1 + rand_spec(y, 1, w - 1);
    let b = rand_spec(y, 2, w);
    let d1 = if d < 4 { 2 + rand_spec(x, 3, 2) } else { 2 };
    let a1 = 1 + rand_spec(x, 4, p1 - 1);
    let b1 = rand_spec(x, 5, p1);
    (d, a, b, d1, a1, b1)
}

/// index sequence of Enc[K', C, (d,a,b,d1,a1,b1)] (5.3.5.3): at most 30 + 3 indices.
/// Written in the same 32-bit width as the code on purpose (two different widths of symbolic-divisor modulo make the
/// SAT problem intractable); no sum here can exceed 2 * 65536, and Kani checks the code's own arithmetic for overflow.
pub fn enc_indices_spec(t: (u32, u32, u32, u32, u32, u32), w: u32, p: u32, p1: u32) -> ([u64; 33], usize) {
    let (d, a, mut b, d1, a1, mut b1) = t;
    let mut out = [0u64; 33];
    let mut n = 0usize;
    out[n] = b as u64;
    n += 1;
    let mut j = 1;
    while j < d {
        b = (b + a) % w;
        out[n] = b as u64;
        n += 1;
        j += 1;
    }
    while b1 >= p {
        b1 = (b1 + a1) % p1;
    }
    out[n] = w as u64 + b1 as u64;
    n += 1;
    let mut j = 1;
    while j < d1 {
        b1 = (b1 + a1) % p1;
        while b1 >= p {
            b1 = (b1 + a1) % p1;
        }
        out[n] = w as u64 + b1 as u64;
        n += 1;
        j += 1;
    }
    (out, n)
}

const SMALL_PRIMES: [u32; 52] = [
    2, 3, 5, 7, 11, 13, 17, 19, 23, 29, 31, 37, 41, 43, 47, 53, 59, 61, 67, 71, 73, 79, 83, 89, 97, 101, 103, 107, 109, 113, 127,
    131, 137, 139, 149, 151, 157, 163, 167, 173, 179, 181, 191, 193, 197, 199, 211, 223, 227, 229, 233, 239,
];

/// primality by trial division with every prime below 241 (complete for n < 241^2 = 58081; larger n are refused)
pub fn is_prime(n: u32) -> bool {
    if n < 2 || n >= 58081 {
        return false;
    }
    let mut k = 0;
    while k < 52 {
        let q = SMALL_PRIMES[k];
        if q * q > n {
            return true;
        }
        if n % q == 0 {
            return false;
        }
        k += 1;
    }
    true
}
