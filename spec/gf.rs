// Executable GF(2^8) oracle, written from RFC 6330 section 5.7 (polynomial x^8+x^4+x^3+x^2+1, alpha = 2).
// Independent of the repository's log/exp tables: shift-and-xor only.

/// Carry-less multiplication modulo 0x11D, 8 fixed steps (loop-free when unwound).
pub fn gf_mul(a: u8, b: u8) -> u8 {
    let mut acc: u16 = 0;
    let mut aa: u16 = a as u16;
    let mut k = 0;
    while k < 8 {
        if (b >> k) & 1 == 1 {
            acc ^= aa;
        }
        aa <<= 1;
        if aa & 0x100 != 0 {
            aa ^= 0x11D;
        }
        k += 1;
    }
    acc as u8
}

/// alpha^i by repeated doubling (i steps).
pub fn gf_pow2(i: usize) -> u8 {
    let mut x: u8 = 1;
    let mut k = 0;
    while k < i {
        x = gf_mul(x, 2);
        k += 1;
    }
    x
}
