"""property -> units table; Kani harness registry; paired witness harnesses"""
from kunit import H

KJOBS = {}
KJOBS_THOROUGH = {'K-KERN': 8}   # the thorough kernel harnesses (longer tails, 8 scalars each) need up to ~7 GB each
SOLVER_ASSUMED = ('assumed contract (not verified): pi_solver::fused_inverse_mul_symbols{,_no_hdpc} returns Some(C) only for the unique '
                  'solution C of the constraint system it was given, and None only when that system is rank deficient')

KUNITS = {
    'K-GF': [
        H('octet::verif_hooks::kani_gf::gf_mul_matches_polynomial', True, functions=['src/octet.rs Mul for &Octet / Octet', 'src/octet.rs OCTET_MUL']),
        H('octet::verif_hooks::kani_gf::gf_nibble_tables', True, functions=['src/octet.rs OCTET_MUL_LOW_BITS / OCTET_MUL_HI_BITS']),
        H('octet::verif_hooks::kani_gf::gf_add_sub_fma', True, functions=['src/octet.rs Add/Sub/AddAssign for Octet', 'src/octet.rs Octet::fma']),
        H('octet::verif_hooks::kani_gf::gf_div_inverse', True, functions=['src/octet.rs Div for &Octet / Octet']),
        H('octet::verif_hooks::kani_gf::gf_div_zero_refused', True, refusal=True),
        H('octet::verif_hooks::kani_gf::gf_alpha_pow', True, covers=False, functions=['src/octet.rs Octet::alpha']),
        H('octet::verif_hooks::kani_gf::gf_exp_log_tables', True, functions=['src/octet.rs OCT_EXP / OCT_LOG']),
        H('octet::verif_hooks::kani_gf::gf_alpha_refuses_256', True, refusal=True),
    ],
    'K-RNG': [
        H('rng::verif_hooks::kani_rng::rand_xor_value_matches_rfc', True, functions=['src/rng.rs rand (xor value, table indices; reduction % m in V-RNG)']),
        H('rng::verif_hooks::kani_rng::v_tables_match_pin', True, functions=['src/rng.rs V0..V3']),
        H('rng::verif_hooks::kani_rng::rand_refuses_zero_modulus', True, refusal=True),
        H('base::verif_hooks::kani_tuple::deg_matches_rfc', True, functions=['src/base.rs deg']),
        H('base::verif_hooks::kani_tuple::deg_refuses_large_v', True, refusal=True),
        H('base::verif_hooks::kani_tuple::tuple_in_range_no_panic', True, functions=['src/base.rs intermediate_tuple (rand, deg inlined): ranges, no panic, no overflow']),
    ],
    'K-TAB': [
        H('systematic_constants::verif_hooks::kani_tab::tables_match_pin', True, functions=['src/systematic_constants.rs SYSTEMATIC_INDICES_AND_PARAMETERS, P1_TABLE']),
        H('systematic_constants::verif_hooks::kani_tab::row_facts_0', True, covers=False),
        H('systematic_constants::verif_hooks::kani_tab::row_facts_1', True, covers=False),
        H('systematic_constants::verif_hooks::kani_tab::row_facts_2', True, covers=False),
        H('systematic_constants::verif_hooks::kani_tab::row_facts_3', True, covers=False),
        H('systematic_constants::verif_hooks::kani_tab::row_facts_4', True, covers=False),
        H('systematic_constants::verif_hooks::kani_tab::row_facts_5', True, covers=False),
        H('systematic_constants::verif_hooks::kani_tab::row_facts_6', True, covers=False),
        H('systematic_constants::verif_hooks::kani_tab::row_facts_7', True, covers=False),
    ],
    'K-ENCIDX': [
        H('constraint_matrix::verif_hooks::kani_encidx::enc_indices_matches_rfc_d1_2', True, unwind_is_obligation=True, timeout='40m', tier='thorough', functions=['src/constraint_matrix.rs enc_indices']),
        H('constraint_matrix::verif_hooks::kani_encidx::enc_indices_matches_rfc_d1_3', True, unwind_is_obligation=True, timeout='40m', tier='thorough'),
        H('constraint_matrix::verif_hooks::kani_encidx::enc_indices_bounded_d8_d1_2', False, bound='d <= 8 (all rows, all a, b, a1, b1); the complete d <= 30 harnesses run in the thorough tier (21 min)', unwind_is_obligation=True, timeout='20m', functions=['src/constraint_matrix.rs enc_indices']),
        H('constraint_matrix::verif_hooks::kani_encidx::enc_indices_bounded_d8_d1_3', False, bound='d <= 8', unwind_is_obligation=True, timeout='20m'),
    ],
    'K-WIRE': [
        H('base::verif_hooks::kani_wire::payload_id_value_roundtrip', True, functions=['src/base.rs PayloadId::new/serialize/deserialize/accessors']),
        H('base::verif_hooks::kani_wire::payload_id_bytes_roundtrip', True),
        H('base::verif_hooks::kani_wire::payload_id_refuses_25_bit_esi', True, refusal=True),
        H('base::verif_hooks::kani_wire::oti_bytes_roundtrip', True, functions=['src/base.rs ObjectTransmissionInformation::serialize/deserialize/accessors']),
        H('base::verif_hooks::kani_wire::oti_value_roundtrip', True),
    ],
    'K-OTI': [
        H('base::verif_hooks::kani_oti::oti_new_refuses_misaligned', True, refusal=True, functions=['src/base.rs ObjectTransmissionInformation::new']),
        H('base::verif_hooks::kani_oti::oti_new_refuses_long_object', True, refusal=True),
        H('base::verif_hooks::kani_oti::oti_new_reports_arguments', True, functions=['src/base.rs ObjectTransmissionInformation::new + accessors']),
    ],
}

import json as _json, os as _os
_KERN = _json.load(open(_os.path.join(_os.path.dirname(_os.path.abspath(__file__)), 'hooks', 'kern_harnesses.json')))
KUNITS['K-KERN'] = [H(k['name'], False,
                      bound='concrete lengths %s%s; symbolic contents and index; offsets {0,1,7}' % (k['lens'], (', scalar ' + str(k['scalar'])) if k['scalar'] else ''),
                      refusal=bool(k.get('refusal')), tier=k['tier'], covers=False, timeout='30m',
                      functions=['src/octets.rs ' + k['kernel']]) for k in _KERN]
KJOBS['K-KERN'] = 12

KUNITS['K-SLABMEM'] = [H('symbol_slab::verif_hooks::kani_slab::slab_%s%s' % (op, m), False, covers=False, timeout='20m',
                          bound='3 symbols, symbol sizes %s, scalar 0x53, %s reorder mapping; portable kernels' % ('1..16' if op == 'add_assign' else '{1, 8, 15}', 'with' if m else 'without'),
                          functions=['src/symbol_slab.rs SymbolSlab::add_assign / mulassign_scalar / fma / get_pair_mut / get_mut (real bodies incl. raw-pointer borrow)'] if (m == '' and op == 'add_assign') else [])
                        for m in ('', '_mapped') for op in ('add_assign', 'mulassign', 'fma')] + [
    H('symbol_slab::verif_hooks::kani_slab::slab_pair_refuses_bad_indices', False, bound='3 symbols of 4 bytes', refusal=True, covers=False)]
KJOBS['K-SLABMEM'] = 9

KUNITS['K-LAYOUT'] = [H('encoder::verif_hooks::kani_enc::create_symbols_layout_%s' % n, False, covers=False, timeout='20m',
                         bound='one concrete configuration (T, Al, N, K) = %s, symbolic data' % cfgs,
                         functions=['src/encoder.rs SourceBlockEncoder::create_symbols'] if n == 'even' else [])
                       for n, cfgs in (('even', '(6,2,3,2)'), ('uneven', '(5,1,3,2)'), ('uneven_aligned', '(8,2,3,2)'), ('single_sub_block', '(4,1,1,3)'))]
KUNITS['K-GF2'] = [H('gf2::verif_hooks::kani_gf2::add_assign_binary_is_wordwise_xor', False, bound='dest of 0, 1, 2, 5, 6 words inside an 8-word buffer, symbolic contents', functions=['src/gf2.rs add_assign_binary']),
                   H('gf2::verif_hooks::kani_gf2::add_assign_binary_reads_only_len_words', False, bound='dest 3 words, src 6 words'),
                   H('gf2::verif_hooks::kani_gf2::add_assign_binary_refuses_short_src', False, bound='dest 4 words, src 3 words', refusal=True, covers=False),
                   H('gf2::verif_hooks::kani_gf2::get_both_ranges_are_the_two_disjoint_windows', False, bound='vector of 8 words; i, j, len symbolic (all disjoint in-range window pairs)', functions=['src/util.rs get_both_ranges']),
                   H('gf2::verif_hooks::kani_gf2::get_both_indices_are_elements_i_and_j', False, bound='vector of 8 words; i, j symbolic and distinct', functions=['src/util.rs get_both_indices'])]
# Verus gives no counterexample: these Kani harnesses of the same contract are run only after a Verus obligation failed
WITNESS = {
    'V-RNG': [H('rng::verif_hooks::kani_rng::rand_xor_value_matches_rfc', True, timeout='10m')],
    'V-OTI': [H('base::verif_hooks::kani_oti::oti_new_refuses_too_many_symbols', True, refusal=True, timeout='5m')],
}

# native contract evaluators (/verif/replay), also only consulted after a Verus obligation failed
WITNESS_NATIVE = {
    'V-PARAM': ['param-search'],
}

PROPS = {
    'C19': dict(
        level='proof', units=[('V', 'V-OTI', 'v_oti'), ('K', 'K-OTI', None)],
        explanation='ObjectTransmissionInformation::new (extracted, rule A2: each assert becomes a refusal) accepts exactly oti_valid(F,T,Z,Al) '
                    'for all machine inputs with T,Z,Al >= 1 and stores its arguments; int_div_ceil == ceil(num/denom) mod 2^32.',
        assumptions=['rule A2 panic-as-result transformation models refusal', 'Verus/Z3 and vstd arithmetic lemmas are sound'],
        not_decided=[]),
    'C15': dict(
        level='proof', units=[('V', 'V-TAB', 'v_tab'), ('V', 'V-RNG', 'v_rng'), ('K', 'K-TAB', None), ('K', 'K-RNG', None), ('K', 'K-ENCIDX', None)],
        explanation='complete Kani harnesses on the real functions: every table row (symbolic row index / exhaustive concrete loops), every K <= 56403, '
                    'every ISI < 2^24 + K\' for every row, every in-range tuple for enc_indices; RFC oracles in u64; automatic overflow/bounds/panic checks on every path',
        assumptions=['pinned table transcription (/verif/spec/rfc_tables.rs) equals RFC 6330 sections 5.5/5.6 (RFC text not available offline)',
                     'RFC oracles /verif/spec/rfc.rs transcribed from RFC 6330 5.3.5.1-5.3.5.4', 'CBMC/cadical sound'],
        not_decided=[]),
    'C13': dict(
        level='proof', units=[('K', 'K-WIRE', None), ('V', 'V-PKT', 'v_pkt')],
        explanation='fixed-size formats (PayloadId, ObjectTransmissionInformation): loop-free Kani harnesses over all byte patterns / all values (complete); oracle = from_be_bytes at the RFC field positions; '
                    'EncodingPacket: Verus on the extracted serialize/deserialize for every payload length: bytes == payload id ++ payload, and both round trips as a lemma over the two contracts',
        assumptions=['oracle: u32/u16/u64::from_be_bytes at the RFC 6330 3.2/3.3 field offsets', 'V-PKT assumes the PayloadId (de)serialisation contract that K-WIRE proves', 'CBMC/cadical, Verus/Z3 sound'],
        not_decided=[]),
    'C14': dict(
        level='proof', units=[('V', 'V-PARAM', 'v_param')],
        explanation='generate_encoding_parameters (extracted with its closure kl; rules D3, D6, A1) returns exactly the RFC 6330 4.3 values for all (F, P, WS) '
                    'for which a valid configuration exists: T = P - P mod Al, Z = ceil(Kt/KL(N_max)), N = least n with ceil(Kt/Z) <= KL(n); KL(n) = max K\' <= WS/(Al*ceil(T/(Al*n))) '
                    'proved equal to the table scan using sortedness computed from the extracted table; lemma: larger WS never gives more blocks; derived configuration satisfies C19 validity',
        assumptions=['Al/SS policy (8,8 for P >= 64 else 1,1) is a parameter of the spec (RFC leaves it to the application)',
                     'round-trip clause reduces to C01 + derived configuration valid (postcondition); not re-proved here', 'Verus/Z3 sound'],
        not_decided=['encoder/decoder round trip from derived parameters (see C01)']),
    'C17': dict(
        level='proof', units=[('V', 'V-CACHE', 'v_cache'), ('V', 'V-SBENEW', 'v_sbenew')],
        explanation='lock-invariant proof (Owicki-Gries): get_or_generate_source_block_encoding_plan extracted with rule L1 (each lock() yields an ARBITRARY cache state satisfying cache_inv, i.e. whatever '
                    'other threads left; every exit of a guard scope must re-establish cache_inv) and D4; proves: returned plan is the plan for the requested symbol count (transparency), a plan is stored only under its own count, '
                    'at most 64 plans, FIFO and map in bijection. All interleavings are covered by mutual exclusion, not by exploration. SourceBlockEncoder::with_encoding_plan (V-SBENEW) returns only for a plan whose source_symbol_count equals the block\'s symbol count (any other plan is refused by panic), and its intermediate symbols are the fold of exactly that plan\'s operations over the block\'s D vector.',
        assumptions=['std Mutex mutual exclusion / OnceLock single initialisation', 'SourceBlockEncodingPlan::generate deterministic in its argument', 'vstd HashMap/VecDeque/Arc specifications',
                     'no panic inside a critical section other than allocation failure (no arithmetic/index obligations remain there), so poisoning is unreachable'],
        not_decided=['that the encoder built from a plan equals the one built without a plan (plan replay == direct solve): see C06/C09 V-SLAB']),
    'C18': dict(
        level='proof', units=[('V', 'V-ENC', 'v_enc'), ('V', 'V-ENCNEW', 'v_encnew'), ('V', 'V-SBENEW', 'v_sbenew')],
        explanation='repair_packets(start, n) extracted verbatim: for all K <= 56403, start, n with K + start + n <= 2^24: exactly n packets, packet i == repair_packet_spec(encoder, start + i) '
                    '(block number, ESI K+start+i, payload Enc over ISI K\'+start+i); window==singles, overlap agreement, distinct IDs, every ESI < 2^24 producible are lemmas over that contract; '
                    'get_encoded_packets(r): block by block in order, the K source packets then repair_packets(0, r) (positions given by block_at); Encoder::new numbers block b with b; source_packets (rule D9: (0..K).map(..).collect() desugared to the loop it denotes) returns K packets, packet i = (block number, ESI i, source symbol i); with_encoding_plan keeps the block number, refuses a plan for another symbol count, and its result is a function of (plan operations, block symbols) only, so equal plans are interchangeable (V-SBENEW)',
        assumptions=['intermediate_tuple / enc_into / table look-ups are external_body here: deterministic functions of their arguments (their values are decided under C15/C04)',
                     'Verus/Z3 sound'],
        not_decided=['plan interchangeability rests on generate() being deterministic (C17 assumption)']),
    'C01': dict(
        level='proof', units=[('V', 'V-DEC', 'v_dec'), ('V', 'V-UNPACK', 'v_unpack'), ('V', 'V-BLOCKS', 'v_blocks'), ('V', 'V-ENCNEW', 'v_encnew'), ('V', 'V-REBUILD', 'v_rebuild'), ('V', 'V-CRSYM', 'v_crsym')],
        explanation='everything around the solver, for all inputs: the block decoder state is an exact record of the distinct packets received (INV); its answer is answer_spec(state): None below K distinct symbols, '
                    'the un-interleaved source symbols when all K arrived (no solver involved: always answers), otherwise the block assembled from the solver result for exactly the ISI list and D vector RFC 6330 prescribes; '
                    'the object decoder memoises block answers, concatenates them in block order and truncates to F (never longer); un-interleaving writes exactly the RFC layout positions (V-UNPACK); '
                    'block cutting on the encoder side is V-BLOCKS, symbol creation (sub-block interleaving, inverse of un-interleaving: lemma_unpack_inverts) V-CRSYM; rebuild_source_symbol_into writes Enc[K\', C, Tuple[K\', i]] as the xor over the RFC index walk (V-REBUILD)',
        assumptions=[SOLVER_ASSUMED, 'packets come from the encoder of this object: block number < Z, payload of exactly T bytes, 24-bit ESI (preconditions)',
                     'V-DEC uses rebuild_source_symbol_into through an abstract contract (function of K, slab, id); its concrete value is V-REBUILD\'s'],
        not_decided=['that the solver returns the unique solution (pi_solver.rs is outside contract reach): soundness of the final bytes rests on the assumed solver contract',
                     'that the intermediate symbols generated on the encoder side solve the pre-code system (solver)']),
    'C02': dict(
        level='proof', units=[('V', 'V-DEC', 'v_dec'), ('V', 'V-AMAT', 'v_amat')],
        explanation='the decoder-level half of the property, for all states: the case analysis of SourceBlockDecoder::decode (too few / all source / solve), the ISI list and D vector handed to the solver, '
                    'the GF(2)-only attempt exactly when S + |isis| >= L, its Some returned, and on None ALWAYS the standard solve (never gives up through the fast path); the answer is a function of the received state alone '
                    '(the `decoded` flag is write-only), so it is re-evaluated on the full accumulated set at every call; the matrix handed to the solver: generate_constraint_matrix and generate_constraint_matrix_no_hdpc build, for all K and all ISI lists, exactly the binary part of the RFC 5.3.3.3 matrix (G_LDPC,1 | I_S | G_LDPC,2 rows, zero HDPC gap, one G_ENC row per received ISI with ones at the 5.3.5.3 index walk) (V-AMAT)',
        assumptions=[SOLVER_ASSUMED, 'V-AMAT: BinaryMatrix reduced to new/set with the cell-level contract that V-DENSE proves for the dense matrix and V-SPMAT proves for the sparse one (both under C16); generate_hdpc_rows (the GF(256) rows) external'],
        not_decided=['rank exactness of the solver (Some iff the constraint matrix has full rank over GF(256)): NOT decided by this check; it is the assumed solver contract',
                     'generate_hdpc_rows (HDPC rows, GF(256) arithmetic with Rand) is not under contract']),
    'C08': dict(
        level='proof', units=[('V', 'V-DEC', 'v_dec')],
        explanation='duplicate suppression (a packet whose ESI was seen changes nothing), packets with different ESIs commute up to the arrival order of repair packets (multiset equal), idempotence; '
                    'object decoder: a block answer is memoised and never changes, later packets for it are ignored, every later call returns result_spec(blocks); decode and add_new_packet+get_result share one '
                    'state-transition predicate and one result function (interface agreement); all for every state and packet',
        assumptions=[SOLVER_ASSUMED + ' -- in particular the final answer is independent of the ORDER of repair rows only if the solver is exact', 'derive(Clone) is a structural copy (std)'],
        not_decided=['order independence of the solver result under permutation of repair rows (solver contract)']),
    'C05': dict(
        level='proof', units=[('V', 'V-PART', 'v_part'), ('V', 'V-BLOCKS', 'v_blocks'), ('V', 'V-ENCNEW', 'v_encnew'), ('V', 'V-UNPACK', 'v_unpack'), ('V', 'V-CRSYM', 'v_crsym'), ('V', 'V-SBENEW', 'v_sbenew'), ('V', 'V-ENC', 'v_enc'), ('V', 'V-DEC', 'v_dec'), ('K', 'K-LAYOUT', None)],
        explanation='Partition[I,J] characterised over integers (generic function, all inputs); calculate_block_offsets returns Z contiguous blocks, ZL of KL*T then ZS of KS*T bytes covering exactly Kt*T >= F with less than one symbol of padding; '
                    'Encoder::new builds block encoder b with number b from exactly (object ++ zeros)[start_b..end_b] and a plan for its symbol count (only the tail of the last block reaches the zeros); '
                    'Decoder::new creates Z block decoders numbered 0..Z-1 with KL/KS symbols and the configured T, N, Al; unpack_sub_blocks writes symbol idx to the positions of the RFC 4.4.1.2 layout for all T, Al, N, K; create_symbols (encoder side, V-CRSYM): for all T, Al, N, K and data, K symbols of T bytes, symbol m = concatenation over the sub-blocks sb of block bytes [K*off(sb) + m*bytes(sb), +bytes(sb)) (both branches: N > 1 nested loops, N == 1 chunks), and lemma_unpack_inverts: un-interleaving that symbol restores exactly those block bytes; source_packets: K packets, ESI i, payload = symbol i (V-ENC)',
        assumptions=['valid configuration additionally has T >= 1, Z >= 1, 1 <= N <= T/Al (RFC 4.4.1.2)', 'Verus/Z3 sound'],
        not_decided=['V-CRSYM replaces four std constructs by trusted model functions (rule S4: vec![vec![]; n], `for x in &mut v` + extend_from_slice, drain(..).map(Symbol::new).collect(), chunks(n).map(..).collect()); the bounded Kani unit K-LAYOUT runs the unmodified function on 4 small configurations as a cross-check of those models']),
    'C09': dict(
        level='proof', units=[('V', 'V-SLAB', 'v_slab'), ('V', 'V-ENCINTO', 'v_encinto'), ('V', 'V-LIN', 'v_lin'), ('K', 'K-SLABMEM', None)],
        explanation='for all symbol counts and sizes: SymbolSlab::add_assign / mulassign_scalar / fma / set_reorder and perform_op realise apply_op on the logical symbols (whole view: every other symbol unchanged), '
                    'create_d builds the RFC D vector, gen_intermediate_symbols_with_plan == fold of apply_op over the plan; lemma: every op, hence every plan, acts independently on each byte column '
                    '(column(apply_ops(D, ops), j) == apply_ops(column(D, j), ops)), so plans behave identically for every symbol size; every op is additive over symbol-wise xor '
                    '(lemma_op_additive, using distributivity of the polynomial product proved by bit_vector); enc_into (the encoding symbol generator Enc[]) returns, for every tuple and every symbol size, the symbol-wise xor of the intermediate symbols at the RFC 5.3.5.3 index walk (V-ENCINTO), hence is linear in the intermediate symbols; scalar homogeneity (V-LIN): the shift-and-xor product of the contracts is commutative and satisfies a*xtime(b) == xtime(a*b) (two 16-bit bit_vector facts), hence s*(k*x) == k*(s*x) and associativity by algebra; every op, every plan, the D vector and Enc commute with multiplication by a constant (lemma_encoding_homogeneous: scaled source symbols give scaled encoding symbols). Bounded Kani stand-in K-SLABMEM runs the real slab ops (raw-pointer borrow, real kernels) on 3 symbols of 1..16 bytes',
        assumptions=['kernel contracts (element-wise) assumed in V-SLAB: checked bounded by K-KERN (C11)', 'rule U2 / S3 models of from_raw_parts and &mut vec[a..b]', 'the solver\'s op list is data independent (syntactic: phases never read D)',
                     'V-ENCINTO: contracts of SymbolSlab::get (proved in V-SLAB), octets::add_assign (K-KERN) and the three table look-ups (V-TAB) assumed; termination of the `while b1 >= P` walk not proved in Verus (partial correctness)'],
        not_decided=['the decoding direction (decoder output is linear in the received packets) is not stated separately: the decoder replays the same op interpreter (perform_op) whose linearity is proved']),
    'C06': dict(
        level='proof', units=[('V', 'V-SLAB', 'v_slab'), ('V', 'V-SBENEW', 'v_sbenew'), ('V', 'V-TAB', 'v_tab'), ('K', 'K-TAB', None)],
        explanation='decided part only: plan replay applies exactly the op list with the slab interpreter (gen_intermediate_symbols_with_plan == apply_ops over the D vector), the final Reorder is the only '
                    'logical->physical mapping and get/get_mut/get_pair_mut honour it, a plan generated on 1-byte symbols is valid for every symbol size (column independence); table well-formedness for all 477 rows',
        assumptions=['kernel contracts (K-KERN)', SOLVER_ASSUMED],
        not_decided=['that the 477 encoding matrices are invertible for the tabulated J(K\') (a computational fact established only by running the solver) and that the five-phase solve returns the solution: NOT decidable by function contracts here',
                     'that the intermediate symbols satisfy the LDPC/HDPC/LT relations (needs the solver + matrix construction)']),
    'C12': dict(
        level='proof', units=[('K', 'K-GF', None), ('V', 'V-SLAB', 'v_slab'), ('K', 'K-SLABMEM', None), ('K', 'K-KERN', None)],
        explanation='every unsafe site is discharged by the unit that covers it: get_unchecked table look-ups in Octet::mul/fma (K-GF, complete, Kani pointer checks); '
                    'SymbolSlab::get_pair_mut: the safety condition of its two from_raw_parts calls (both ranges in bounds, disjoint) proved in Verus for ALL counts, symbol sizes and index pairs (rule U2); '
                    'vector kernels, read_unaligned tails and u64->u32 reinterpretation: Kani pointer/bounds checks on the real kernels with canary bytes on both sides (K-KERN, bounded lengths), K-SLABMEM bounded',
        assumptions=['5 vendor-intrinsic models + CPUID model (Kani stubs)', 'callers inside the solver are not under contract'],
        not_decided=['kernels for buffer lengths beyond the bounded set (see C11)', 'whole encode/decode workloads (dynamic-analysis statement)']),
    'C11': dict(
        level='model_checking', units=[('K', 'K-KERN', None)],
        explanation='bounded model checking of every x86-64 kernel (13) and the 4 dispatchers under an arbitrary CPUID on the real code: symbolic buffer contents, symbolic checked index, canary bytes, Kani pointer checks; '
                    'concrete lengths (quick: 0,1,7,W,W+1,2W+7; thorough: every length 0..3W-1 for the add and binary kernels), offsets {0,1,7}; concrete scalars for the table-shuffle kernels (quick 0x53; thorough: scalars 0x53, 0x8E x {0,1,2 vector iterations} x tails 0..8, and all 256 scalars at length W+1 (vector kernels) or 2 (scalar-loop fallback kernels)), '
                    'symbolic scalar and symbolic packed words for the binary kernels. NOT a proof over all lengths.',
        assumptions=['Intel SDM models of _mm{,256,512}_shuffle_epi8, _bextr2_u32, _mm512_maskz_mov_epi8; nondeterministic CPUID/XGETBV', 'NEON kernels are cfg\'d out on this host: not covered'],
        not_decided=['lengths >= 3W, scalars x lengths product beyond the stated set', 'NEON']),
    'C04': dict(
        level='proof', units=[('V', 'V-RNG', 'v_rng'), ('V', 'V-TAB', 'v_tab'), ('V', 'V-ENC', 'v_enc'), ('V', 'V-ENCINTO', 'v_encinto'), ('V', 'V-ENCIDX', 'v_encidx'), ('V', 'V-REBUILD', 'v_rebuild'), ('V', 'V-AMAT', 'v_amat'), ('V', 'V-SLAB', 'v_slab'), ('K', 'K-TAB', None), ('K', 'K-RNG', None), ('K', 'K-ENCIDX', None), ('K', 'K-GF', None)],
        explanation='decided part: Rand, Deg, Tuple equal the RFC definitions for every reachable argument (V-RNG/K-RNG); the Enc index sequence of the decoder-side twin enc_indices (the sequence of its callback arguments, rule F1) is the RFC 5.3.5.3 walk for ALL tuples and all W, P, P1 (V-ENCIDX, Verus, unbounded) and equals the executable RFC transcription for every table row, with termination (K-ENCIDX, Kani); the decoder\'s rebuild_source_symbol_into (enc_indices applied to its copy/add_assign closure, rule I1) writes the same xor over the same walk as the encoder\'s enc_into (V-REBUILD); the encoder-side enc_into xors exactly the intermediate symbols at the RFC 5.3.5.3 walk (b + j*a mod W for j < d, then the first d1 positions of the b1 + k*a1 mod P1 walk with value < P), for ALL K\', tuples and symbol sizes (V-ENCINTO, Verus, unbounded); '
                    'repair ESI X maps to ISI X + K\' - K and payload Enc over the encoder\'s intermediate symbols, ids as prescribed, source packet i carries source symbol i (V-ENC); D = [0^(S+H), source, 0-padding] (V-SLAB create_d); '
                    'tables equal the pinned transcription and satisfy the RFC structural facts (K-TAB/V-TAB); GF(256) is the RFC field (K-GF); generate_constraint_matrix{,_no_hdpc} build the binary rows of the RFC 5.3.3.3 matrix A for all K and ISI lists (V-AMAT). The oracle is an RFC transcription, so a consistent deviation shared by encoder and decoder is caught.',
        assumptions=['pinned tables == RFC 6330', 'V-ENCINTO: termination of the P1 walk not proved (partial correctness); get/add_assign/table look-up contracts assumed there and proved in V-SLAB/K-KERN/V-TAB', SOLVER_ASSUMED],
        not_decided=['that the intermediate symbols are THE solution of the pre-code system (solver); generate_hdpc_rows (the H GF(256) rows of A) is not under contract; V-AMAT states the binary rows in set semantics (cell is 1 iff some step of the RFC procedure adds it): equal to the RFC\'s xor formulation because the touched positions of a row/column are pairwise distinct (S prime > a, P >= 2, W prime, d <= W-2), which is argued, not machine-checked',
                     'K-ENCIDX quick tier: d <= 8 only (complete d <= 30 in thorough); V-ENCIDX covers every d in both tiers but proves partial correctness (termination of the P1 walk is K-ENCIDX\'s)']),
    'C16': dict(
        level='proof', units=[('V', 'V-DENSE', 'v_dense'), ('V', 'V-SPARSE', 'v_sparse'), ('V', 'V-SPVEC', 'v_spvec'), ('V', 'V-SPMAT', 'v_spmat'), ('V', 'V-DCOUNT', 'v_dcount'), ('V', 'V-DSUBROW', 'v_dsubrow'), ('K', 'K-GF2', None)],
        explanation='the bit-packed dense matrix against the abstract bit array cell(i, j), for all heights and widths: new (all zero), set, get, swap_rows, swap_columns (rows >= hint), add_assign_rows (row xor), '
                    'resize (shrinking keeps every remaining cell), query_non_zero_columns{,_into}, get_ones_in_column{,_into} (exactly the set cells, increasing; the allocating wrappers proved against the _into contracts), count_ones == number of set cells in the column range (V-DCOUNT: mask and popcount lemmas), get_sub_row_as_octets == the cells right-aligned in u64 words with zero padding on the left (V-DSUBROW); every postcondition speaks about the whole matrix (frame); '
                    'word/bit addressing by non-linear lemmas, single-bit updates by bit_vector lemmas. SPARSE matrix: the sparse row SparseBinaryVec (get/insert/remove against its key set, keys strictly increasing, and add_assign -- the two-iterator merge -- == symmetric difference of the key sets, with its `column added` result: V-SPVEC); new (all zero, identity maps), get, set, swap_rows, swap_columns, get_sub_row_as_octets, count_ones (== number of set cells in the range, by a bijection argument over the column permutation), add_assign_rows (row xor: dense tail always, sparse part when start_col == 0, every other row untouched) against the same abstract cell(i, j) for all shapes, every logical/physical row and column permutation and every dense-tail width (V-SPMAT: the same two-method contract new/set that V-AMAT relies on, so the constraint matrix built into a sparse matrix reads back cell by cell like the dense one); the right-aligned dense tail: addressing helpers and hint_column_dense_and_frozen '
                    '(freezing a column keeps every already frozen column, one position further right, also across a word-per-row boundary where the words are re-spaced; unused left bits stay zero).',
        assumptions=['util::get_both_ranges external in V-DENSE (contract: two disjoint mutable sub-slices, first at i, second at j), checked BOUNDED by K-GF2 (Kani, vector of 8 words, i/j/len symbolic) and otherwise assumed; util::get_both_indices (rule S6 models it as element i, element j in that order) likewise checked BOUNDED by K-GF2 (8 words, i/j symbolic); gf2::add_assign_binary external in V-DENSE, its element-wise xor contract checked BOUNDED by K-GF2 (Kani, dest of 0..6 words)', 'assume_specification for usize::div_ceil and <[T]>::swap', 'Octet equality is structural', 'rule S5 (binary_search on a strictly increasing slice), S6 (v[i].insert(..) through IndexMut; get_both_indices + add_assign as one model call carrying the contract V-SPVEC proves), S7 (unwrap_or_else), X1 (slice iterator as cursor), X2 (match on cmp as if-chain) model/desugaring rules'],
        not_decided=['SparseBinaryMatrix::resize, the row/column queries and the column index (ImmutableListMap) are NOT under contract; '
                     'a bounded Kani comparison against the dense matrix (K-SPARSE in /verif/hooks/lib_hooks.rs) did not finish within 30 min even with 3 symbolic cells and is not run',
                     'DenseBinaryMatrix::get_row_iter (+ OctetIter); count_ones is proved for start_col < width (count_ones(row, width, width) on the last row of a matrix whose width is a multiple of 64 indexes one word past the end: excluded by precondition, no caller does it)', 'therefore the equivalence of the two implementations is decided for construction-time set/get, the swaps and column freezing; not for shrinking and the queries of the sparse matrix']),
    'C10': dict(
        level='proof', units=[('K', 'K-GF', None), ('V', 'V-LIN', 'v_lin')],
        explanation='all harnesses loop-free over full u8 domains (spec loop of 8 steps fully unwound with unwinding assertions): complete; field laws of the polynomial product (commutative, associative, distributive, a*0 == 0) proved in Verus for all operands (V-LIN; distributivity in V-SLAB), hence for the real product by the K-GF equality',
        assumptions=['oracle: GF(2^8) modulo x^8+x^4+x^3+x^2+1 written as shift-and-xor (/verif/spec/gf.rs)', 'CBMC/cadical sound'],
        not_decided=['the Verus spec product gf_mul (8 shift-and-xor steps) and the executable oracle /verif/spec/gf.rs are the same algorithm written twice (Verus spec language / Rust): their agreement is by inspection']),
}

NOT_APPLICABLE = {
    'C03': 'probabilistic property (failure frequency over random erasure patterns): no precondition/postcondition pair states a frequency and neither Verus nor Kani has a probabilistic back end; the inputs of the code design (Rand/Deg/Tuple/tables) are decided under C15/C04',
    'C07': 'relates different compilations/configurations of the program (debug vs release, std vs no_std, dense vs sparse back end); a deductive verifier sees one cfg-resolved program and the cfg-dependent code is inside the unverified solver; sub-clauses are decided under C11 (every CPU path), C15/C14/C19 (no overflow => overflow-check setting irrelevant), C17/C18 (cached/explicit/fresh plans)',
}
